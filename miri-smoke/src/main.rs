//! Miri smoke lane (C01 / C09): small scenarios on the real library under the
//! undefined-behaviour interpreter.  `mirismoke <k> [file]`
//!   k in 0..8  : create / modify / close / reopen scenario k (C01 round trip)
//!   k >= 8     : open the (possibly corrupted) file and exercise it (C09)
//! Exit 0 = fine, 3 = round trip mismatch, panic = non-zero by itself.
use msi::{Column, Delete, Expr, Insert, Package, PackageType, Select, Update, Value};
use std::io::{Cursor, Read, Write};

fn dump<F: Read + std::io::Seek>(p: &mut Package<F>) -> Vec<String> {
    let mut out = Vec::new();
    out.push(format!("{:?} {:?}", p.package_type(), p.database_codepage()));
    let names: Vec<String> = p.tables().map(|t| t.name().to_string()).collect();
    for n in names {
        let cols: Vec<String> = p.get_table(&n).unwrap().columns().iter().map(|c| format!("{}:{}", c.name(), c.coltype())).collect();
        out.push(format!("{} {:?}", n, cols));
        if let Ok(rows) = p.select_rows(Select::table(n.clone())) {
            for r in rows {
                let cells: Vec<String> = (0..r.len()).map(|i| match &r[i] { Value::Str(s) if s.is_empty() => "NULL".to_string(), v => format!("{}", v) }).collect();
                out.push(format!("  {}", cells.join("|")));
            }
        }
    }
    let s = p.summary_info();
    out.push(format!("{:?} {:?} {:?} {:?} {:?}", s.title(), s.author(), s.comments(), s.word_count(), s.codepage()));
    let streams: Vec<String> = p.streams().collect();
    out.push(format!("{:?}", streams));
    out
}

fn scenario(k: u32) -> i32 {
    let mut p = Package::create([PackageType::Installer, PackageType::Patch, PackageType::Transform][(k % 3) as usize], Cursor::new(Vec::new())).expect("create");
    let cols = vec![
        Column::build("K").primary_key().int16(),
        Column::build("S").nullable().string(if k % 2 == 0 { 0 } else { 64 }),
        Column::build("N").nullable().int32(),
    ];
    p.create_table("T", cols).expect("create_table");
    let long = "x".repeat(if k == 3 { 70_000 } else { 10 });
    p.insert_rows(
        Insert::into("T")
            .row(vec![Value::Int(2), Value::from("two é"), Value::Int(i32::MAX)])
            .row(vec![Value::Int(1), Value::from(""), Value::Null])
            .row(vec![Value::Int(3), if k % 2 == 0 { Value::from(long.as_str()) } else { Value::from("three") }, Value::Int(-i32::MAX)]),
    )
    .expect("insert");
    match k % 4 {
        0 => p.update_rows(Update::table("T").set("K", Value::Int(9)).with(Expr::col("K").eq(Expr::integer(1)))).expect("update key"),
        1 => p.delete_rows(Delete::from("T").with(Expr::col("N").eq(Expr::null()))).expect("delete"),
        2 => {
            p.summary_info_mut().set_author("é author");
            p.summary_info_mut().set_codepage(msi::CodePage::Windows1252);
            p.set_database_codepage(msi::CodePage::Windows1252);
        }
        _ => {
            let mut w = p.write_stream("Blob.bin").expect("write_stream");
            w.write_all(&[7u8; 5000]).expect("write");
            w.flush().expect("flush stream");
        }
    }
    if k >= 4 {
        p.create_table("U", vec![Column::build("Id").primary_key().string(20)]).expect("create U");
        p.insert_rows(Insert::into("U").row(vec![Value::from("two é")])).expect("insert U");
        p.drop_table("U").expect("drop U");
    }
    let before = dump(&mut p);
    let cursor = match k % 3 {
        0 => {
            p.flush().expect("flush");
            p.into_inner().expect("into_inner")
        }
        _ => p.into_inner().expect("into_inner"),
    };
    let mut q = Package::open(cursor).expect("reopen");
    let after = dump(&mut q);
    if before != after {
        eprintln!("MISMATCH\n{:#?}\n{:#?}", before, after);
        return 3;
    }
    println!("scenario {} ok: {} lines", k, after.len());
    0
}

fn exercise(path: &str) -> i32 {
    let bytes = std::fs::read(path).expect("read input file");
    let mut p = match Package::open(Cursor::new(bytes)) {
        Ok(p) => p,
        Err(e) => {
            println!("open refused: {}", e);
            return 0;
        }
    };
    let lines = dump(&mut p);
    let names: Vec<String> = p.tables().map(|t| t.name().to_string()).collect();
    for n in names.iter().filter(|n| !n.starts_with('_')) {
        let _ = p.delete_rows(Delete::from(n.clone()));
    }
    let _ = p.create_table("MiriNew", vec![Column::build("Id").primary_key().int16()]);
    let _ = p.insert_rows(Insert::into("MiriNew").row(vec![Value::Int(1)]));
    p.summary_info_mut().set_subject("miri");
    let _ = p.flush();
    println!("exercised: {} lines", lines.len());
    0
}

fn main() {
    let args: Vec<String> = std::env::args().collect();
    let k: u32 = args.get(1).and_then(|v| v.parse().ok()).unwrap_or(0);
    let code = if k < 8 { scenario(k) } else { exercise(args.get(2).map(|s| s.as_str()).unwrap_or("")) };
    std::process::exit(code);
}
