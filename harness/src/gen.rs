//! Workload generators: schemas, values valid for a column, operations that
//! are (mostly) valid for the current model state.  Unique tokens are
//! embedded in generated strings so that a value read back identifies the
//! write it came from and leftovers of deleted data are unambiguous.

use crate::cpora;
use crate::exprmodel::{Bin, MExpr, Un};
use crate::model::{Model, Op, SumOp};
use crate::prng::Rng;
use crate::refpred::{ref_valid, Verdict};
use crate::types::{ColDef, CT, V};

#[derive(Clone, Debug)]
pub struct GenCfg {
    pub max_cols: usize,
    pub max_tables: usize,
    pub max_batch: usize,
    /// percentage of deliberately structurally invalid ops (dup key, unknown table ...)
    pub invalid_pct: u64,
    pub key_updates: bool,
    /// percentage of updates that assign key columns
    pub key_update_pct: u64,
    pub streams: bool,
    pub summary: bool,
    pub codepages: bool,
    pub nonascii: bool,
    pub huge_strings: bool,
    pub empty_strings: bool,
    /// weight of create/drop table ops (0..100)
    pub ddl_pct: u64,
    /// (0 = never) one insert in this many is a batch of 700 / 1,100 / 2,300 rows: table streams, the string pool and the
    /// string data then cross the container's 4 KiB mini-stream cutoff and its 8 KiB buffers (both ways,
    /// since later deletes shrink them again)
    pub big_batch_one_in: u64,
}

impl Default for GenCfg {
    fn default() -> Self {
        GenCfg {
            max_cols: 6,
            max_tables: 4,
            max_batch: 4,
            invalid_pct: 5,
            key_updates: true,
            key_update_pct: 25,
            streams: true,
            summary: true,
            codepages: true,
            nonascii: true,
            huge_strings: false,
            empty_strings: true,
            ddl_pct: 12,
            big_batch_one_in: 0,
        }
    }
}

pub struct Gen {
    pub rng: Rng,
    pub cfg: GenCfg,
    pub case: u64,
    counter: u64,
}

const STR_CATEGORIES: [&str; 16] = [
    "Text", "Identifier", "Property", "UpperCase", "LowerCase", "GUID", "Version", "Language", "Integer", "DoubleInteger", "Cabinet",
    "Formatted", "Filename", "Path", "Condition", "Template",
];

pub fn rand_guid(rng: &mut Rng) -> String {
    let hex = b"0123456789ABCDEF";
    let mut s = String::from("{");
    for (i, n) in [8usize, 4, 4, 4, 12].iter().enumerate() {
        if i > 0 {
            s.push('-');
        }
        for _ in 0..*n {
            s.push(hex[rng.usize(16)] as char);
        }
    }
    s.push('}');
    s
}

impl Gen {
    pub fn new(rng: Rng, cfg: GenCfg, case: u64) -> Gen {
        Gen { rng, cfg, case, counter: 0 }
    }

    pub fn token(&mut self) -> String {
        self.counter += 1;
        format!("t{}x{}", self.case, self.counter)
    }

    pub fn table_name(&mut self) -> String {
        let t = self.token();
        match self.rng.below(4) {
            0 => format!("T{}", t),
            1 => format!("_{}", t),
            2 => format!("Tab.{}", t),
            _ => format!("Table_{}", t),
        }
    }

    pub fn schema(&mut self) -> Vec<ColDef> {
        let n = 1 + self.rng.usize(self.cfg.max_cols);
        let nkeys = 1 + self.rng.usize(n.min(3));
        let mut cols = Vec::new();
        // key positions: usually the first columns, sometimes scattered
        let mut key_pos: Vec<usize> = (0..nkeys).collect();
        if self.rng.chance(1, 5) {
            let mut all: Vec<usize> = (0..n).collect();
            self.rng.shuffle(&mut all);
            key_pos = all[..nkeys].to_vec();
        }
        for i in 0..n {
            let key = key_pos.contains(&i);
            let name = match self.rng.below(3) {
                0 => format!("c{}", i),
                1 => format!("Col_{}.x", i),
                _ => format!("_k{}", i),
            };
            let ty = match self.rng.below(10) {
                0..=2 => CT::Int16,
                3..=4 => CT::Int32,
                _ => CT::Str(*self.rng.pick(&[0usize, 0, 16, 32, 64, 72, 255, 255, 20, 12, 1, 2, 4])),
            };
            let mut c = ColDef::new(&name, ty);
            c.key = key;
            c.nullable = if key { self.rng.chance(15, 100) } else { self.rng.chance(1, 2) };
            match ty {
                CT::Str(w) => {
                    c.localizable = self.rng.chance(1, 10);
                    if self.rng.chance(4, 10) && (w == 0 || w >= 12) {
                        let cat = *self.rng.pick(&STR_CATEGORIES);
                        // GUIDs need 38 characters
                        if !(cat == "GUID" && w != 0 && w < 38) {
                            c.category = Some(cat);
                        }
                        // a category AND an enumeration on one column (values that satisfy both)
                        if !key && matches!(cat, "Identifier" | "Text" | "LowerCase") && (w == 0 || w >= 6) && self.rng.chance(1, 4) {
                            let k = 2 + self.rng.usize(3);
                            c.enums = (0..k).map(|j| format!("e{}v{}", i, j)).collect();
                        }
                    } else if self.rng.chance(1, 8) && !key {
                        let k = 2 + self.rng.usize(3);
                        c.enums = (0..k).map(|j| format!("e{}v{}", i, j)).collect();
                    }
                }
                CT::Int16 => {
                    if self.rng.chance(1, 5) {
                        let a = self.rng.range(-32767, 32767) as i32;
                        let b = self.rng.range(a as i64, 32767) as i32;
                        c.range = Some((a, b.max(a.saturating_add(40).min(32767))));
                        if self.rng.chance(1, 4) {
                            // a declared range wider than the cell: it narrows nothing, the cell limits still apply
                            c.range = Some((*self.rng.pick(&[-100_000, -32768, 0]), *self.rng.pick(&[100_000, 65535, 32768])));
                        }
                    }
                }
                CT::Int32 => {
                    if self.rng.chance(1, 5) {
                        let a = self.rng.range(-(i32::MAX as i64), i32::MAX as i64 - 1000) as i32;
                        c.range = Some((a, a.saturating_add(self.rng.range(40, 1 << 30) as i32)));
                    }
                }
            }
            cols.push(c);
        }
        cols
    }

    fn free_text(&mut self, page: i32, width: usize, want_token: bool) -> String {
        let tok = self.token();
        let limit = if width == 0 { 60 } else { width };
        let mut s = String::new();
        if want_token && limit >= tok.chars().count() {
            s.push_str(&tok);
        }
        let extra = self.rng.usize((limit - s.chars().count()).min(12) + 1);
        let reper = if self.cfg.nonascii { cpora::repertoire(page, 10) } else { Vec::new() };
        for _ in 0..extra {
            if !reper.is_empty() && self.rng.chance(1, 3) {
                s.push(*self.rng.pick(&reper));
            } else {
                s.push(*self.rng.pick(&[' ', 'a', 'Z', '0', '.', '_', '-', ';', '\'', '"', '%', '#', '[', ']', '\\', '/']));
            }
        }
        if s.is_empty() && !self.cfg.empty_strings {
            s.push('x');
        }
        s
    }

    /// A string valid for the column (category, enumeration, width).
    pub fn string_for(&mut self, col: &ColDef, page: i32) -> String {
        let w = match col.ty {
            CT::Str(w) => w,
            _ => 0,
        };
        if !col.enums.is_empty() {
            return self.rng.pick(&col.enums).clone();
        }
        let tok = self.token();
        let fits = |s: &str| w == 0 || s.chars().count() <= w;
        let s = match col.category {
            Some("Identifier") => {
                let s = format!("{}{}", if self.rng.chance(1, 3) { "_" } else { "I" }, tok);
                if fits(&s) {
                    s
                } else {
                    "a".into()
                }
            }
            Some("Property") => {
                let s = format!("{}P{}", if self.rng.chance(1, 3) { "%" } else { "" }, tok);
                if fits(&s) {
                    s
                } else {
                    "p".into()
                }
            }
            Some("UpperCase") => {
                let s = format!("UP {}", tok.to_uppercase());
                if fits(&s) {
                    s
                } else {
                    "U".into()
                }
            }
            Some("LowerCase") => {
                let s = format!("lo {}", tok);
                if fits(&s) {
                    s
                } else {
                    "l".into()
                }
            }
            Some("GUID") => rand_guid(&mut self.rng),
            Some("Version") => {
                let k = 1 + self.rng.usize(4);
                let v = (0..k).map(|_| format!("{}", self.rng.below(65536))).collect::<Vec<_>>().join(".");
                if fits(&v) {
                    v
                } else {
                    "1".into()
                }
            }
            Some("Language") => {
                let k = 1 + self.rng.usize(3);
                let v = (0..k).map(|_| format!("{}", self.rng.below(65536))).collect::<Vec<_>>().join(",");
                if fits(&v) {
                    v
                } else {
                    "9".into()
                }
            }
            Some("Integer") => format!("{}", self.rng.range(-32768, 32767)),
            Some("DoubleInteger") => {
                let v = format!("{}", self.rng.range(i32::MIN as i64, i32::MAX as i64));
                if fits(&v) {
                    v
                } else {
                    "7".into()
                }
            }
            Some("Cabinet") => {
                if self.rng.chance(1, 2) {
                    let s = format!("#C{}", tok);
                    if fits(&s) {
                        s
                    } else {
                        "#c".into()
                    }
                } else {
                    format!("c{}.cab", self.rng.below(9999999))
                }
            }
            _ => {
                if self.cfg.huge_strings && w == 0 && self.rng.chance(1, 40) {
                    let mut s = tok.clone();
                    s.push_str(&"h".repeat(66_000 + self.rng.usize(5000)));
                    s
                } else if self.cfg.empty_strings && self.rng.chance(1, 25) {
                    String::new()
                } else {
                    self.free_text(page, w, true)
                }
            }
        };
        debug_assert!(
            ref_valid(col, &V::Str(s.clone())) != Verdict::Invalid,
            "generator produced an invalid string {:?} for {:?}",
            s,
            col
        );
        s
    }

    pub fn int_for(&mut self, col: &ColDef) -> i32 {
        let (lo, hi): (i64, i64) = match col.ty {
            CT::Int16 => (-32767, 32767),
            _ => (-(i32::MAX as i64), i32::MAX as i64),
        };
        let (lo, hi) = match col.range {
            Some((a, b)) => (lo.max(a as i64), hi.min(b as i64)),
            None => (lo, hi),
        };
        if lo > hi {
            return lo as i32;
        }
        match self.rng.below(6) {
            0 => lo as i32,
            1 => hi as i32,
            2 => self.rng.range(lo, hi).clamp(lo, hi) as i32,
            3 => (*self.rng.pick(&[0i64, 1, -1, 2, 7])).clamp(lo, hi) as i32,
            _ => self.rng.range(-50, 50).clamp(lo, hi) as i32,
        }
    }

    /// A value valid for the column.
    pub fn value_for(&mut self, col: &ColDef, page: i32) -> V {
        if col.nullable && self.rng.chance(1, 5) {
            return V::Null;
        }
        match col.ty {
            CT::Str(_) => V::Str(self.string_for(col, page)),
            _ => V::Int(self.int_for(col)),
        }
    }

    pub fn row_for(&mut self, cols: &[ColDef], page: i32) -> Vec<V> {
        let mut row: Vec<V> = Vec::with_capacity(cols.len());
        for c in cols {
            // now and then the same string appears in two cells of one row
            if c.ty.is_str() && self.rng.chance(1, 8) {
                let prev: Vec<V> = row.iter().filter(|v| matches!(v, V::Str(s) if !s.is_empty())).cloned().collect();
                if let Some(p) = prev.last() {
                    if ref_valid(c, p) == Verdict::Valid {
                        row.push(p.clone());
                        continue;
                    }
                }
            }
            let v = self.value_for(c, page);
            row.push(v);
        }
        row
    }

    /// A row whose key does not collide with existing rows or `pending`.
    pub fn fresh_row(&mut self, model: &Model, table: &str, pending: &[Vec<V>]) -> Option<Vec<V>> {
        let t = model.tables.get(table)?;
        for _ in 0..30 {
            let row = self.row_for(&t.cols, model.db_codepage);
            let k = t.key_of(&row);
            if t.rows.iter().any(|r| t.key_of(r) == k) || pending.iter().any(|r| t.key_of(r) == k) {
                continue;
            }
            return Some(row);
        }
        None
    }

    /// A condition over the table's columns; mostly selective on existing rows.
    pub fn condition(&mut self, model: &Model, table: &str) -> Option<MExpr> {
        let t = model.tables.get(table)?;
        if t.cols.is_empty() {
            return None;
        }
        let existing = if t.rows.is_empty() { None } else { Some(t.rows[self.rng.usize(t.rows.len())].clone()) };
        let lit_for = |g: &mut Gen, ci: usize| -> V {
            match &existing {
                Some(r) if g.rng.chance(3, 4) => r[ci].clone(),
                _ => g.value_for(&t.cols[ci], model.db_codepage),
            }
        };
        let atom = |g: &mut Gen| -> MExpr {
            let ci = g.rng.usize(t.cols.len());
            let lit = lit_for(g, ci);
            let col = MExpr::Col(t.cols[ci].name.clone());
            // one atom in five is not a comparison: truthy values other than 1 (bare column, bit test, sum)
            match g.rng.below(15) {
                0 => return col,
                1 => return MExpr::Bin(Bin::BitAnd, Box::new(col), Box::new(MExpr::Lit(V::Int(*g.rng.pick(&[1, 2, 4, 6, 0x7fff]))))),
                2 => return MExpr::Bin(Bin::Add, Box::new(col), Box::new(MExpr::Lit(lit))),
                _ => {}
            }
            let op = *g.rng.pick(&[Bin::Eq, Bin::Eq, Bin::Eq, Bin::Ne, Bin::Lt, Bin::Le, Bin::Gt, Bin::Ge]);
            MExpr::Bin(op, Box::new(col), Box::new(MExpr::Lit(lit)))
        };
        Some(match self.rng.below(10) {
            0..=4 => {
                // match an existing row by its full key
                match &existing {
                    Some(r) => {
                        let mut e: Option<MExpr> = None;
                        for ki in t.key_idx() {
                            let a = MExpr::Bin(Bin::Eq, Box::new(MExpr::Col(t.cols[ki].name.clone())), Box::new(MExpr::Lit(r[ki].clone())));
                            e = Some(match e {
                                None => a,
                                Some(p) => MExpr::And(Box::new(p), Box::new(a)),
                            });
                        }
                        e.unwrap_or_else(|| atom(self))
                    }
                    None => atom(self),
                }
            }
            5..=6 => atom(self),
            7 => MExpr::And(Box::new(atom(self)), Box::new(atom(self))),
            8 => MExpr::Or(Box::new(atom(self)), Box::new(atom(self))),
            _ => MExpr::Un(Un::Not, Box::new(atom(self))),
        })
    }

    fn all_strings_representable(model: &Model, page: i32) -> bool {
        for (n, t) in &model.tables {
            if !cpora::representable(page, n) {
                return false;
            }
            for c in &t.cols {
                if !cpora::representable(page, &c.name) || c.enums.iter().any(|e| !cpora::representable(page, e)) {
                    return false;
                }
            }
            for r in &t.rows {
                for v in r {
                    if let V::Str(s) = v {
                        if !cpora::representable(page, s) {
                            return false;
                        }
                    }
                }
            }
        }
        true
    }

    fn summary_strings_representable(model: &Model, page: i32) -> bool {
        let s = &model.summary;
        [&s.title, &s.subject, &s.author, &s.comments, &s.creating_app, &s.arch]
            .iter()
            .all(|o| o.as_ref().map(|x| cpora::representable(page, x)).unwrap_or(true))
    }

    pub fn summary_text(&mut self, page: i32) -> String {
        let tok = self.token();
        let reper = if self.cfg.nonascii { cpora::repertoire(page, 8) } else { Vec::new() };
        let mut s = tok;
        let extra = self.rng.usize(9);
        for _ in 0..extra {
            if !reper.is_empty() && self.rng.chance(1, 2) {
                s.push(*self.rng.pick(&reper));
            } else {
                s.push(*self.rng.pick(&[' ', 'q', 'Q', '1', ',', '.']));
            }
        }
        s
    }

    pub fn summary_op(&mut self, model: &Model) -> SumOp {
        let page = model.summary.codepage;
        match self.rng.below(22) {
            0 => SumOp::SetTitle(self.summary_text(page)),
            1 => SumOp::ClearTitle,
            2 => SumOp::SetSubject(self.summary_text(page)),
            3 => SumOp::ClearSubject,
            4 => SumOp::SetAuthor(self.summary_text(page)),
            5 => SumOp::ClearAuthor,
            6 => SumOp::SetComments(self.summary_text(page)),
            7 => SumOp::ClearComments,
            8 => SumOp::SetCreatingApp(self.summary_text(page)),
            9 => SumOp::ClearCreatingApp,
            10 => SumOp::SetUuid(rand_guid(&mut self.rng).trim_matches(|c| c == '{' || c == '}').to_string()),
            11 => SumOp::ClearUuid,
            12 => SumOp::SetWordCount(*self.rng.pick(&[0, 2, -1, i32::MAX, i32::MIN, 1234])),
            13 => SumOp::ClearWordCount,
            14 => {
                // multiples of 100 ns, 1601 .. 2200
                let secs = self.rng.range(-11_644_473_600, 7_258_118_400) as i128;
                SumOp::SetCreationTime(secs * 1_000_000_000 + (self.rng.below(10_000_000) as i128) * 100)
            }
            15 => SumOp::ClearCreationTime,
            16 => SumOp::SetArch(self.rng.pick(&["x64", "Intel", "Arm64", "x64,Intel"]).to_string()),
            17 => SumOp::ClearArch,
            18 => {
                let k = self.rng.usize(4);
                SumOp::SetLanguages((0..k).map(|_| *self.rng.pick(&[1033u16, 0, 1036, 3084, 65535, 9])).collect())
            }
            19 => SumOp::ClearLanguages,
            _ => {
                if self.cfg.codepages {
                    let ids = cpora::all_ids();
                    for _ in 0..6 {
                        let id = *self.rng.pick(&ids);
                        if Gen::summary_strings_representable(model, id) {
                            return SumOp::SetCodepage(id);
                        }
                    }
                }
                SumOp::SetCodepage(65001)
            }
        }
    }

    pub fn stream_name(&mut self) -> String {
        let t = self.token();
        match self.rng.below(5) {
            0 => format!("Icon.{}", t),
            1 => format!("Binary.{}", t),
            2 => format!("{} data", t),
            3 => format!("é{}", t),
            _ => t,
        }
    }

    pub fn stream_data(&mut self) -> Vec<u8> {
        let len = match self.rng.below(12) {
            0 => 0,
            1 => 1,
            2 => 4095,
            3 => 4096,
            4 => 4097,
            5 => 8193,
            6 if self.cfg.huge_strings => 70_000,
            _ => self.rng.usize(300),
        };
        let tag = self.token();
        let mut d: Vec<u8> = tag.into_bytes();
        d.truncate(len);
        while d.len() < len {
            d.push((self.rng.next_u64() & 0xff) as u8);
        }
        d
    }

    /// Next operation for the current model state.
    pub fn op(&mut self, model: &Model) -> Op {
        let user_tables: Vec<String> = model.tables.keys().cloned().collect();
        let invalid = self.rng.chance(self.cfg.invalid_pct, 100);
        if user_tables.is_empty() || (user_tables.len() < self.cfg.max_tables && self.rng.chance(self.cfg.ddl_pct, 100)) {
            let name = self.table_name();
            let mut cols = self.schema();
            // now and then a column carries the table's own name (one string, two catalog cells in one row)
            if self.rng.chance(1, 8) && name.chars().count() <= 32 {
                let i = self.rng.usize(cols.len());
                cols[i].name = name.clone();
            }
            return Op::CreateTable { name, cols };
        }
        let table = self.rng.pick(&user_tables).clone();
        let r = self.rng.below(100);
        if invalid {
            return match self.rng.below(8) {
                6 | 7 => {
                    // a value inside the declared range but outside what the cell can store (or the reserved
                    // most negative number): must be refused, never stored wrapped
                    let t = &model.tables[&table];
                    let ints: Vec<usize> = (0..t.cols.len()).filter(|i| !t.cols[*i].ty.is_str()).collect();
                    match (self.fresh_row(model, &table, &[]), ints.is_empty()) {
                        (Some(mut r), false) => {
                            let ci = *self.rng.pick(&ints);
                            r[ci] = V::Int(match t.cols[ci].ty {
                                CT::Int16 => *self.rng.pick(&[32768, -32768, 40000, 65636, -40000]),
                                _ => i32::MIN,
                            });
                            Op::Insert { table, rows: vec![r] }
                        }
                        _ => Op::DropTable { name: "NoSuchTable".into() },
                    }
                }
                0 => Op::Insert { table: "NoSuchTable".into(), rows: vec![vec![V::Int(1)]] },
                1 => {
                    // duplicate of an existing key
                    let t = &model.tables[&table];
                    match t.rows.first() {
                        Some(r) => Op::Insert { table, rows: vec![r.clone()] },
                        None => Op::DropTable { name: "NoSuchTable".into() },
                    }
                }
                2 => {
                    // batch whose last row duplicates its first
                    match self.fresh_row(model, &table, &[]) {
                        Some(r) => Op::Insert { table, rows: vec![r.clone(), r] },
                        None => Op::DropTable { name: "NoSuchTable".into() },
                    }
                }
                3 => Op::Update { table, sets: vec![("NoSuchColumn".into(), V::Int(1))], cond: None },
                4 => Op::Delete { table, cond: Some(MExpr::Col("NoSuchColumn".into())) },
                _ => Op::CreateTable { name: table, cols: self.schema() },
            };
        }
        let ddl = self.cfg.ddl_pct;
        if r < ddl / 2 {
            return Op::DropTable { name: table };
        }
        if self.cfg.streams && r < ddl / 2 + 8 {
            let existing: Vec<String> = model.streams.keys().cloned().collect();
            return match self.rng.below(4) {
                0 if !existing.is_empty() => Op::RemoveStream { name: self.rng.pick(&existing).clone() },
                1 if !existing.is_empty() => Op::WriteStream { name: self.rng.pick(&existing).clone(), data: self.stream_data() },
                _ => Op::WriteStream { name: self.stream_name(), data: self.stream_data() },
            };
        }
        if self.cfg.summary && r < ddl / 2 + 18 {
            return Op::Summary(self.summary_op(model));
        }
        if self.cfg.codepages && r < ddl / 2 + 21 {
            let ids = cpora::all_ids();
            // one in three: the page the database already has (must be a no-op for everything that is pending)
            if self.rng.chance(1, 3) {
                return Op::SetDbCodepage(model.db_codepage);
            }
            for _ in 0..6 {
                let id = *self.rng.pick(&ids);
                if Gen::all_strings_representable(model, id) {
                    return Op::SetDbCodepage(id);
                }
            }
            return Op::SetDbCodepage(65001);
        }
        let t = &model.tables[&table];
        match self.rng.below(10) {
            0..=4 => {
                let mut n = 1 + self.rng.usize(self.cfg.max_batch);
                if self.cfg.big_batch_one_in > 0 && self.rng.chance(1, self.cfg.big_batch_one_in) {
                    n = *self.rng.pick(&[700usize, 1_100, 2_300]);
                }
                let mut rows = Vec::new();
                for _ in 0..n {
                    if let Some(r) = self.fresh_row(model, &table, &rows) {
                        rows.push(r);
                    }
                }
                if rows.is_empty() {
                    return Op::Delete { table, cond: None };
                }
                Op::Insert { table, rows }
            }
            5..=7 => {
                // update
                let non_key: Vec<usize> = (0..t.cols.len()).filter(|i| !t.cols[*i].key).collect();
                let key: Vec<usize> = t.key_idx();
                let use_key = self.cfg.key_updates && (non_key.is_empty() || self.rng.chance(self.cfg.key_update_pct, 100));
                let all: Vec<usize> = (0..t.cols.len()).collect();
                // one update in six assigns key and non-key columns together
                let mixed = self.cfg.key_updates && !non_key.is_empty() && self.rng.chance(1, 6);
                let pool = if mixed { &all } else if use_key { &key } else { &non_key };
                if pool.is_empty() {
                    return Op::Delete { table: table.clone(), cond: self.condition(model, &table) };
                }
                let k = 1 + self.rng.usize(pool.len().min(2));
                let mut sets = Vec::new();
                for _ in 0..k {
                    let ci = *self.rng.pick(pool);
                    // the same column assigned twice in one UPDATE is legal (the last assignment wins): 1 in 10
                    if sets.iter().any(|(n, _): &(String, V)| *n == t.cols[ci].name) && !self.rng.chance(1, 10) {
                        continue;
                    }
                    sets.push((t.cols[ci].name.clone(), self.value_for(&t.cols[ci], model.db_codepage)));
                }
                let cond = if self.rng.chance(1, 6) { None } else { self.condition(model, &table) };
                Op::Update { table, sets, cond }
            }
            _ => {
                let cond = if self.rng.chance(1, 8) { None } else { self.condition(model, &table) };
                Op::Delete { table, cond }
            }
        }
    }
}
