//! Independent codec of the MSI database format, written from the format
//! description and sharing no code with /repo/src.  Only the `cfb` crate is
//! shared (for the container), as the properties' `observe_at` prescribes.

use crate::cpora;
use crate::types::V;
use std::collections::BTreeMap;
use std::io::{Cursor, Read, Write};

pub const CLSID_INSTALLER: &str = "000c1084-0000-0000-c000-000000000046";
pub const CLSID_PATCH: &str = "000c1086-0000-0000-c000-000000000046";
pub const CLSID_TRANSFORM: &str = "000c1082-0000-0000-c000-000000000046";

const B64: &[u8; 64] = b"0123456789ABCDEFGHIJKLMNOPQRSTUVWXYZabcdefghijklmnopqrstuvwxyz._";

fn b64_index(c: char) -> Option<u32> {
    if !c.is_ascii() {
        return None;
    }
    B64.iter().position(|&b| b == c as u8).map(|i| i as u32)
}

/// Unpacks a container entry name: (logical name, is_table).
pub fn unpack_name(raw: &str) -> (String, bool) {
    let mut out = String::new();
    let mut is_table = false;
    for (i, ch) in raw.chars().enumerate() {
        let u = ch as u32;
        if i == 0 && u == 0x4840 {
            is_table = true;
        } else if (0x3800..0x4800).contains(&u) {
            let v = u - 0x3800;
            out.push(B64[(v & 0x3f) as usize] as char);
            out.push(B64[(v >> 6) as usize] as char);
        } else if (0x4800..0x4840).contains(&u) {
            out.push(B64[(u - 0x4800) as usize] as char);
        } else {
            out.push(ch);
        }
    }
    (out, is_table)
}

/// Packs a logical name the way MSI does.
pub fn pack_name(name: &str, is_table: bool) -> String {
    let mut out = String::new();
    if is_table {
        out.push('\u{4840}');
    }
    let cs: Vec<char> = name.chars().collect();
    let mut i = 0;
    while i < cs.len() {
        match b64_index(cs[i]) {
            Some(a) => {
                if i + 1 < cs.len() {
                    if let Some(b) = b64_index(cs[i + 1]) {
                        out.push(char::from_u32(0x3800 + (b << 6) + a).unwrap());
                        i += 2;
                        continue;
                    }
                }
                out.push(char::from_u32(0x4800 + a).unwrap());
                i += 1;
            }
            None => {
                out.push(cs[i]);
                i += 1;
            }
        }
    }
    out
}

#[derive(Clone, Debug, PartialEq, Eq)]
pub struct RawEntry {
    pub len: u32,
    pub refcount: u16,
    pub bytes: Vec<u8>,
    pub text: String,
}

#[derive(Clone, Debug, Default)]
pub struct RawPool {
    pub codepage_id: u32,
    pub long_refs: bool,
    /// index 0 = reference 1
    pub entries: Vec<RawEntry>,
    pub data_len: usize,
}

#[derive(Clone, Copy, Debug, PartialEq, Eq, Hash, PartialOrd, Ord)]
pub enum RawCell {
    Null,
    Int(i32),
    Ref(u32),
}

#[derive(Clone, Debug, PartialEq, Eq)]
pub struct RawCol {
    pub name: String,
    pub type_bits: i32,
}

impl RawCol {
    pub fn is_string(&self) -> bool {
        self.type_bits & 0x800 != 0
    }
    pub fn size_field(&self) -> i32 {
        self.type_bits & 0xff
    }
    /// byte width in a table stream
    pub fn width(&self, long_refs: bool) -> Option<usize> {
        if self.is_string() {
            Some(if long_refs { 3 } else { 2 })
        } else {
            match self.size_field() {
                4 => Some(4),
                2 | 1 => Some(2),
                _ => None,
            }
        }
    }
    pub fn nullable(&self) -> bool {
        self.type_bits & 0x1000 != 0
    }
    pub fn key(&self) -> bool {
        self.type_bits & 0x2000 != 0
    }
    pub fn localizable(&self) -> bool {
        self.type_bits & 0x200 != 0
    }
}

#[derive(Clone, Debug, Default)]
pub struct RawTable {
    pub name: String,
    pub cols: Vec<RawCol>,
    pub rows: Vec<Vec<RawCell>>,
    pub stream_len: Option<usize>,
    pub row_size: usize,
}

#[derive(Clone, Debug, Default)]
pub struct RawDb {
    pub clsid: String,
    /// raw container entries in the root storage: (raw name, is_stream, length)
    pub entries: Vec<(String, bool, u64)>,
    pub pool: RawPool,
    /// catalog tables and user tables
    pub tables: BTreeMap<String, RawTable>,
    /// non-table, non-special streams by unpacked name
    pub streams: BTreeMap<String, Vec<u8>>,
    /// raw names of table-marked streams (unpacked)
    pub table_streams: BTreeMap<String, Vec<u8>>,
    pub summary_raw: Option<Vec<u8>>,
    pub has_signature: bool,
    pub problems: Vec<String>,
}

fn rd_u16(b: &[u8], at: usize) -> Option<u16> {
    if at + 2 <= b.len() {
        Some(u16::from_le_bytes([b[at], b[at + 1]]))
    } else {
        None
    }
}

fn rd_u32(b: &[u8], at: usize) -> Option<u32> {
    if at + 4 <= b.len() {
        Some(u32::from_le_bytes([b[at], b[at + 1], b[at + 2], b[at + 3]]))
    } else {
        None
    }
}

pub fn parse_pool(pool: &[u8], data: &[u8], problems: &mut Vec<String>) -> RawPool {
    let mut out = RawPool { data_len: data.len(), ..Default::default() };
    let header = match rd_u32(pool, 0) {
        Some(h) => h,
        None => {
            problems.push("_StringPool shorter than its 4-byte header".into());
            return out;
        }
    };
    out.long_refs = header & 0x8000_0000 != 0;
    out.codepage_id = header & 0x7fff_ffff;
    if (pool.len() - 4) % 4 != 0 {
        problems.push(format!("_StringPool length {} is not 4 + 4k", pool.len()));
    }
    let mut at = 4;
    let mut lens: Vec<(u32, u16)> = Vec::new();
    while at + 4 <= pool.len() {
        let len = rd_u16(pool, at).unwrap() as u32;
        let rc = rd_u16(pool, at + 2).unwrap();
        at += 4;
        if len == 0 && rc != 0 {
            // long-string escape: high word here, low word + refcount in the next entry
            match (rd_u16(pool, at), rd_u16(pool, at + 2)) {
                (Some(lo), Some(rc2)) => {
                    lens.push((((rc as u32) << 16) | lo as u32, rc2));
                    at += 4;
                }
                _ => {
                    problems.push("_StringPool ends inside a long-string escape".into());
                    break;
                }
            }
        } else {
            lens.push((len, rc));
        }
    }
    let cp = if out.codepage_id == 0 { 65001 } else { out.codepage_id as i32 };
    if cpora::label(cp).is_none() {
        problems.push(format!("_StringPool names unknown code page {}", out.codepage_id));
    }
    let mut pos = 0usize;
    for (len, rc) in lens {
        let end = pos.saturating_add(len as usize);
        let bytes = if end <= data.len() {
            data[pos..end].to_vec()
        } else {
            problems.push(format!("string {} (length {}) runs past the end of _StringData ({} bytes)", out.entries.len() + 1, len, data.len()));
            data[pos.min(data.len())..].to_vec()
        };
        pos = end;
        let text = cpora::decode(cp, &bytes);
        out.entries.push(RawEntry { len, refcount: rc, bytes, text });
    }
    if pos != data.len() {
        problems.push(format!("sum of pool lengths {} != length of _StringData {}", pos, data.len()));
    }
    out
}

fn parse_rows(cols: &[RawCol], long_refs: bool, data: &[u8], name: &str, problems: &mut Vec<String>) -> (Vec<Vec<RawCell>>, usize) {
    let mut widths = Vec::new();
    for c in cols {
        match c.width(long_refs) {
            Some(w) => widths.push(w),
            None => {
                problems.push(format!("table {:?} column {:?}: integer field size {} is not 1, 2 or 4", name, c.name, c.size_field()));
                return (Vec::new(), 0);
            }
        }
    }
    let row_size: usize = widths.iter().sum();
    if row_size == 0 {
        return (Vec::new(), 0);
    }
    if data.len() % row_size != 0 {
        problems.push(format!("table {:?}: stream length {} is not a multiple of the row size {}", name, data.len(), row_size));
    }
    let n = data.len() / row_size;
    let mut rows = vec![Vec::with_capacity(cols.len()); n];
    let mut base = 0usize;
    for (ci, c) in cols.iter().enumerate() {
        let w = widths[ci];
        for (r, row) in rows.iter_mut().enumerate() {
            let at = base + r * w;
            let cell = if c.is_string() {
                let mut v = rd_u16(data, at).unwrap_or(0) as u32;
                if w == 3 {
                    v |= (data[at + 2] as u32) << 16;
                }
                if v == 0 {
                    RawCell::Null
                } else {
                    RawCell::Ref(v)
                }
            } else if w == 2 {
                let v = rd_u16(data, at).unwrap_or(0);
                if v == 0 {
                    RawCell::Null
                } else {
                    RawCell::Int((v as i32) - 0x8000)
                }
            } else {
                let v = rd_u32(data, at).unwrap_or(0);
                if v == 0 {
                    RawCell::Null
                } else {
                    RawCell::Int((v ^ 0x8000_0000) as i32)
                }
            };
            row.push(cell);
        }
        base += n * w;
    }
    (rows, row_size)
}

fn catalog_cols(which: &str) -> Vec<RawCol> {
    let s = |n: &str, w: i32, key: bool| RawCol { name: n.into(), type_bits: 0x800 | 0x400 | 0x100 | w | if key { 0x2000 } else { 0 } };
    let i = |n: &str, key: bool| RawCol { name: n.into(), type_bits: 0x400 | 0x100 | 2 | if key { 0x2000 } else { 0 } };
    match which {
        "_Tables" => vec![s("Name", 64, true)],
        "_Columns" => vec![s("Table", 64, true), i("Number", true), s("Name", 64, false), i("Type", false)],
        _ => vec![],
    }
}

impl RawDb {
    pub fn codepage(&self) -> i32 {
        if self.pool.codepage_id == 0 {
            65001
        } else {
            self.pool.codepage_id as i32
        }
    }

    pub fn text(&self, r: u32) -> Option<&str> {
        self.pool.entries.get((r as usize).wrapping_sub(1)).map(|e| e.text.as_str())
    }

    /// Cell as a harness value (string references resolved through the pool).
    pub fn cell_value(&self, c: RawCell) -> V {
        match c {
            RawCell::Null => V::Null,
            RawCell::Int(i) => V::Int(i),
            RawCell::Ref(r) => V::Str(self.text(r).unwrap_or("").to_string()),
        }
    }

    pub fn table_values(&self, name: &str) -> Option<Vec<Vec<V>>> {
        self.tables.get(name).map(|t| t.rows.iter().map(|r| r.iter().map(|c| self.cell_value(*c)).collect()).collect())
    }
}

/// Decodes a saved compound file.  Problems are collected, not fatal, unless
/// the container itself cannot be opened.
pub fn decode(bytes: &[u8]) -> Result<RawDb, String> {
    let mut comp = cfb::CompoundFile::open(Cursor::new(bytes.to_vec())).map_err(|e| format!("container does not open: {}", e))?;
    let mut db = RawDb::default();
    db.clsid = comp.root_entry().clsid().hyphenated().to_string();
    let entries: Vec<(String, bool, u64)> =
        comp.read_root_storage().map(|e| (e.name().to_string(), e.is_stream(), e.len())).collect();
    db.entries = entries.clone();
    let mut raw_streams: BTreeMap<String, Vec<u8>> = BTreeMap::new();
    for (raw, is_stream, _len) in &entries {
        if !*is_stream {
            continue;
        }
        let mut data = Vec::new();
        match comp.open_stream(format!("/{}", raw)) {
            Ok(mut s) => {
                if let Err(e) = s.read_to_end(&mut data) {
                    db.problems.push(format!("stream {:?} cannot be read: {}", raw, e));
                }
            }
            Err(e) => db.problems.push(format!("stream {:?} cannot be opened: {}", raw, e)),
        }
        raw_streams.insert(raw.clone(), data);
    }
    for (raw, data) in &raw_streams {
        if raw == "\u{5}SummaryInformation" {
            db.summary_raw = Some(data.clone());
        } else if raw == "\u{5}DigitalSignature" {
            db.has_signature = true;
        } else if raw == "\u{5}MsiDigitalSignatureEx" || raw == "\u{5}DocumentSummaryInformation" {
        } else {
            let (name, is_table) = unpack_name(raw);
            if is_table {
                if db.table_streams.insert(name.clone(), data.clone()).is_some() {
                    db.problems.push(format!("two table streams unpack to the same name {:?}", name));
                }
            } else if db.streams.insert(name.clone(), data.clone()).is_some() {
                db.problems.push(format!("two streams unpack to the same name {:?}", name));
            }
        }
    }
    let pool_bytes = db.table_streams.get("_StringPool").cloned();
    let data_bytes = db.table_streams.get("_StringData").cloned();
    match (pool_bytes, data_bytes) {
        (Some(p), Some(d)) => {
            let mut problems = Vec::new();
            db.pool = parse_pool(&p, &d, &mut problems);
            db.problems.extend(problems);
        }
        _ => db.problems.push("_StringPool or _StringData stream missing".into()),
    }
    let long = db.pool.long_refs;
    // catalog
    let mut problems = Vec::new();
    let tcols = catalog_cols("_Tables");
    let (trows, trs) = parse_rows(&tcols, long, db.table_streams.get("_Tables").map(|v| v.as_slice()).unwrap_or(&[]), "_Tables", &mut problems);
    let ccols = catalog_cols("_Columns");
    let (crows, crs) = parse_rows(&ccols, long, db.table_streams.get("_Columns").map(|v| v.as_slice()).unwrap_or(&[]), "_Columns", &mut problems);
    db.tables.insert(
        "_Tables".into(),
        RawTable { name: "_Tables".into(), cols: tcols, rows: trows.clone(), stream_len: db.table_streams.get("_Tables").map(|v| v.len()), row_size: trs },
    );
    db.tables.insert(
        "_Columns".into(),
        RawTable { name: "_Columns".into(), cols: ccols, rows: crows.clone(), stream_len: db.table_streams.get("_Columns").map(|v| v.len()), row_size: crs },
    );
    // table list
    let mut names: Vec<String> = Vec::new();
    for r in &trows {
        match r[0] {
            RawCell::Ref(x) => match db.text(x) {
                Some(t) => {
                    if names.contains(&t.to_string()) {
                        problems.push(format!("_Tables lists {:?} twice", t));
                    }
                    names.push(t.to_string())
                }
                None => problems.push(format!("_Tables holds dangling string reference {}", x)),
            },
            _ => problems.push("_Tables holds a null name".into()),
        }
    }
    // columns per table
    let mut colmap: BTreeMap<String, BTreeMap<i32, RawCol>> = BTreeMap::new();
    for r in &crows {
        let t = match r[0] {
            RawCell::Ref(x) => db.text(x).map(|s| s.to_string()),
            _ => None,
        };
        let n = match r[1] {
            RawCell::Int(i) => Some(i),
            _ => None,
        };
        let cn = match r[2] {
            RawCell::Ref(x) => db.text(x).map(|s| s.to_string()),
            _ => None,
        };
        let ty = match r[3] {
            RawCell::Int(i) => Some(i),
            _ => None,
        };
        match (t, n, cn, ty) {
            (Some(t), Some(n), Some(cn), Some(ty)) => {
                if !names.contains(&t) {
                    problems.push(format!("_Columns mentions table {:?}, which _Tables does not list", t));
                }
                // stored 16-bit: the type word is the unsigned image
                let ty = ty & 0xffff;
                if colmap.entry(t.clone()).or_default().insert(n, RawCol { name: cn, type_bits: ty }).is_some() {
                    problems.push(format!("_Columns lists column number {} of {:?} twice", n, t));
                }
            }
            other => problems.push(format!("_Columns row with null/dangling cell: {:?}", other)),
        }
    }
    for t in &names {
        let cols = match colmap.get(t) {
            Some(c) => c,
            None => {
                problems.push(format!("table {:?} has no columns in _Columns", t));
                continue;
            }
        };
        let nums: Vec<i32> = cols.keys().cloned().collect();
        let want: Vec<i32> = (1..=cols.len() as i32).collect();
        if nums != want {
            problems.push(format!("table {:?}: column numbers {:?} are not 1..{}", t, nums, cols.len()));
        }
        let cols: Vec<RawCol> = cols.values().cloned().collect();
        let data = db.table_streams.get(t.as_str());
        let (rows, rs) = parse_rows(&cols, long, data.map(|v| v.as_slice()).unwrap_or(&[]), t, &mut problems);
        db.tables.insert(t.clone(), RawTable { name: t.clone(), cols, rows, stream_len: data.map(|v| v.len()), row_size: rs });
    }
    for t in db.table_streams.keys() {
        if t != "_StringPool" && t != "_StringData" && t != "_Tables" && t != "_Columns" && !names.contains(t) {
            problems.push(format!("table stream {:?} exists but _Tables does not list it", t));
        }
    }
    db.problems.extend(problems);
    Ok(db)
}

/// String accounting over all tables (catalog included): returns problems.
pub fn account(db: &RawDb) -> Vec<String> {
    let mut problems = Vec::new();
    let n = db.pool.entries.len();
    let mut counts = vec![0u64; n];
    for (tn, t) in &db.tables {
        for (ri, row) in t.rows.iter().enumerate() {
            for (ci, c) in row.iter().enumerate() {
                if let RawCell::Ref(r) = c {
                    let idx = (*r as usize).wrapping_sub(1);
                    if idx >= n {
                        problems.push(format!("table {:?} row {} column {}: reference {} beyond the pool ({} entries)", tn, ri, ci, r, n));
                    } else {
                        counts[idx] += 1;
                        if db.pool.entries[idx].refcount == 0 {
                            problems.push(format!("table {:?} row {} column {}: reference {} to a dead pool entry", tn, ri, ci, r));
                        }
                    }
                }
            }
        }
    }
    for (i, e) in db.pool.entries.iter().enumerate() {
        if e.refcount as u64 != counts[i] {
            problems.push(format!(
                "pool entry {} ({:?}): refcount {} but {} cells refer to it",
                i + 1,
                e.text.chars().take(24).collect::<String>(),
                e.refcount,
                counts[i]
            ));
        }
        if e.refcount == 0 && e.len != 0 {
            problems.push(format!("dead pool entry {} still holds {} bytes of text", i + 1, e.len));
        }
        if e.refcount != 0 && e.len == 0 {
            problems.push(format!("live pool entry {} (refcount {}) is the empty string", i + 1, e.refcount));
        }
    }
    problems
}

// --------------------------------------------------------------------------
// Encoder

#[derive(Clone, Debug)]
pub struct AbsCol {
    pub name: String,
    /// 16-bit type word
    pub type_bits: i32,
}

#[derive(Clone, Debug)]
pub struct AbsTable {
    pub name: String,
    pub cols: Vec<AbsCol>,
    /// rows in the order they are to be stored
    pub rows: Vec<Vec<V>>,
}

#[derive(Clone, Debug, Default)]
pub struct EncOptions {
    pub long_refs: bool,
    /// number of unused (len 0, refcount 0) entries sprinkled into the pool
    pub holes: usize,
    /// store some strings twice (cells alternate between the copies)
    pub duplicates: bool,
    /// add this to every refcount (over-counted pool)
    pub overcount: u16,
    /// code page id written in the pool header (0 allowed)
    pub codepage_id: u32,
    /// extra unreferenced-but-counted big string appended (length)
    pub extra_big_string: usize,
    /// shuffle seed for pool order (0 = order of first use)
    pub pool_shuffle: u64,
}

pub struct Encoded {
    pub bytes: Vec<u8>,
    /// pool texts as stored (for reporting)
    pub pool_len: usize,
}

fn type_width(bits: i32, long: bool) -> usize {
    if bits & 0x800 != 0 {
        if long {
            3
        } else {
            2
        }
    } else if bits & 0xff == 4 {
        4
    } else {
        2
    }
}

struct PoolBuilder {
    texts: Vec<Option<String>>,
    counts: Vec<u32>,
    index: BTreeMap<String, Vec<usize>>,
    duplicates: bool,
    toggle: usize,
}

impl PoolBuilder {
    fn intern(&mut self, s: &str) -> u32 {
        if s.is_empty() {
            return 0;
        }
        let ids = self.index.entry(s.to_string()).or_default();
        self.toggle += 1;
        let pick = if ids.is_empty() || (self.duplicates && ids.len() < 2 && s.len() % 3 == 0) {
            // a new copy is always referenced by the cell that caused it (no dead entry with text)
            self.texts.push(Some(s.to_string()));
            self.counts.push(0);
            ids.push(self.texts.len() - 1);
            self.texts.len() - 1
        } else {
            ids[self.toggle % ids.len()]
        };
        self.counts[pick] += 1;
        (pick + 1) as u32
    }
}

/// Encodes an abstract database.  `tables` must include `_Validation` if one
/// is wanted; `_Tables` and `_Columns` are generated.
pub fn encode(
    clsid: &str,
    tables: &[AbsTable],
    streams: &BTreeMap<String, Vec<u8>>,
    summary: &[u8],
    opts: &EncOptions,
) -> Result<Encoded, String> {
    let long = opts.long_refs;
    let cp = if opts.codepage_id == 0 { 65001 } else { opts.codepage_id as i32 };
    let mut pool = PoolBuilder { texts: Vec::new(), counts: Vec::new(), index: BTreeMap::new(), duplicates: opts.duplicates, toggle: 0 };
    // holes at the start
    for _ in 0..opts.holes / 2 {
        pool.texts.push(None);
        pool.counts.push(0);
    }
    // catalog rows
    let mut trows: Vec<Vec<V>> = tables.iter().map(|t| vec![V::Str(t.name.clone())]).collect();
    trows.sort();
    let mut crows: Vec<Vec<V>> = Vec::new();
    for t in tables {
        for (i, c) in t.cols.iter().enumerate() {
            // the type word is stored in a 16-bit cell: signed image
            let stored = ((c.type_bits & 0xffff) as u16 as i16) as i32;
            crows.push(vec![V::Str(t.name.clone()), V::Int(i as i32 + 1), V::Str(c.name.clone()), V::Int(stored)]);
        }
    }
    crows.sort();
    let s64k = 0x800 | 0x400 | 0x100 | 64 | 0x2000;
    let mut all: Vec<AbsTable> = vec![
        AbsTable { name: "_Tables".into(), cols: vec![AbsCol { name: "Name".into(), type_bits: s64k }], rows: trows },
        AbsTable {
            name: "_Columns".into(),
            cols: vec![
                AbsCol { name: "Table".into(), type_bits: s64k },
                AbsCol { name: "Number".into(), type_bits: 0x2000 | 0x400 | 0x100 | 2 },
                AbsCol { name: "Name".into(), type_bits: 0x800 | 0x400 | 0x100 | 64 },
                AbsCol { name: "Type".into(), type_bits: 0x400 | 0x100 | 2 },
            ],
            rows: crows,
        },
    ];
    all.extend(tables.iter().cloned());
    // encode table streams
    let mut table_bytes: Vec<(String, Vec<u8>)> = Vec::new();
    for t in &all {
        let mut out = Vec::new();
        for (ci, c) in t.cols.iter().enumerate() {
            let w = type_width(c.type_bits, long);
            for row in &t.rows {
                let v = row.get(ci).ok_or_else(|| format!("row of {:?} too short", t.name))?;
                if c.type_bits & 0x800 != 0 {
                    let r = match v {
                        V::Null => 0,
                        V::Str(s) => pool.intern(s),
                        V::Int(_) => return Err(format!("integer in string column of {:?}", t.name)),
                    };
                    out.extend_from_slice(&(r as u16).to_le_bytes());
                    if w == 3 {
                        out.push((r >> 16) as u8);
                    } else if r > 0xffff {
                        return Err("too many strings for 2-byte references".into());
                    }
                } else if w == 2 {
                    let x: u16 = match v {
                        V::Null => 0,
                        V::Int(i) => ((*i + 0x8000) & 0xffff) as u16,
                        V::Str(_) => return Err(format!("string in integer column of {:?}", t.name)),
                    };
                    out.extend_from_slice(&x.to_le_bytes());
                } else {
                    let x: u32 = match v {
                        V::Null => 0,
                        V::Int(i) => (*i as u32) ^ 0x8000_0000,
                        V::Str(_) => return Err(format!("string in integer column of {:?}", t.name)),
                    };
                    out.extend_from_slice(&x.to_le_bytes());
                }
            }
        }
        table_bytes.push((t.name.clone(), out));
    }
    // trailing holes and the extra big string
    for _ in 0..(opts.holes - opts.holes / 2) {
        pool.texts.push(None);
        pool.counts.push(0);
    }
    if opts.extra_big_string > 0 {
        pool.texts.push(Some("B".repeat(opts.extra_big_string)));
        pool.counts.push(1);
    }
    // pool streams
    let mut pool_bytes = Vec::new();
    let header = opts.codepage_id | if long { 0x8000_0000 } else { 0 };
    pool_bytes.extend_from_slice(&header.to_le_bytes());
    let mut data_bytes = Vec::new();
    for (i, t) in pool.texts.iter().enumerate() {
        match t {
            None => pool_bytes.extend_from_slice(&[0, 0, 0, 0]),
            Some(s) => {
                let b = cpora::encode(cp, s);
                let rc = pool.counts[i] as u64 + if opts.extra_big_string > 0 && i == pool.texts.len() - 1 { 0 } else { opts.overcount as u64 };
                let rc = rc.min(0xffff) as u16;
                if b.len() > 0xffff {
                    pool_bytes.extend_from_slice(&0u16.to_le_bytes());
                    pool_bytes.extend_from_slice(&((b.len() >> 16) as u16).to_le_bytes());
                    pool_bytes.extend_from_slice(&((b.len() & 0xffff) as u16).to_le_bytes());
                    pool_bytes.extend_from_slice(&rc.to_le_bytes());
                } else {
                    pool_bytes.extend_from_slice(&(b.len() as u16).to_le_bytes());
                    pool_bytes.extend_from_slice(&rc.to_le_bytes());
                }
                data_bytes.extend_from_slice(&b);
            }
        }
    }
    // container
    let mut comp = cfb::CompoundFile::create(Cursor::new(Vec::new())).map_err(|e| e.to_string())?;
    comp.set_storage_clsid("/", uuid::Uuid::parse_str(clsid).map_err(|e| e.to_string())?).map_err(|e| e.to_string())?;
    let mut put = |comp: &mut cfb::CompoundFile<Cursor<Vec<u8>>>, raw: String, data: &[u8]| -> Result<(), String> {
        let mut s = comp.create_stream(format!("/{}", raw)).map_err(|e| format!("create {:?}: {}", raw, e))?;
        s.write_all(data).map_err(|e| e.to_string())?;
        s.flush().map_err(|e| e.to_string())
    };
    put(&mut comp, "\u{5}SummaryInformation".to_string(), summary)?;
    put(&mut comp, pack_name("_StringPool", true), &pool_bytes)?;
    put(&mut comp, pack_name("_StringData", true), &data_bytes)?;
    for (n, b) in &table_bytes {
        if b.is_empty() && n != "_Tables" && n != "_Columns" {
            continue; // empty tables may have no stream
        }
        put(&mut comp, pack_name(n, true), b)?;
    }
    for (n, b) in streams {
        put(&mut comp, pack_name(n, false), b)?;
    }
    comp.flush().map_err(|e| e.to_string())?;
    Ok(Encoded { bytes: comp.into_inner().into_inner(), pool_len: pool.texts.len() })
}
