//! Session = live package on an instrumented medium + reference model, with
//! the monitors that are evaluated after every step.

use crate::fmt_codec;
use crate::medium::{Handle, Medium};
use crate::model::{self, is_catalog, key_cmp, Model, Op, Reject};
use crate::observe::{observe, Obs, TableObs};
use crate::panicmon::{guarded, PanicInfo};
use crate::refpred::{ref_valid, Verdict};
use crate::report::Report;
use crate::types::{row_json, V};
use serde_json::{json, Value as J};
use std::cmp::Ordering;
use std::io::Cursor;

pub type Pkg = msi::Package<Handle>;

#[derive(Clone, Copy, Debug, PartialEq, Eq)]
pub enum CloseMode {
    Flush,
    IntoInner,
    Drop,
}

pub const CLOSE_MODES: [CloseMode; 3] = [CloseMode::Flush, CloseMode::IntoInner, CloseMode::Drop];

#[derive(Clone, Debug)]
pub enum Step {
    Do(Op),
    Close(CloseMode),
}

impl Step {
    pub fn to_json(&self) -> J {
        match self {
            Step::Do(op) => op.to_json(),
            Step::Close(m) => json!({"close": format!("{:?}", m)}),
        }
    }
}

#[derive(Clone, Debug, Default)]
pub struct Monitors {
    /// C03: observation == model after every operation (+ frame condition)
    pub model_eq: bool,
    /// C05: unique ascending keys and valid cells in every table
    pub invariants: bool,
    /// C08: independent decoder + string accounting on the saved image after every op
    pub saved_image: bool,
    /// C04: after a rejected call, observation identical to the one before
    pub err_unchanged: bool,
    /// C03: Rows::len / Row::len / indexing consistency
    pub api_issues: bool,
}

#[derive(Clone, Debug)]
pub struct Finding {
    /// short stable clause id used in the violation signature
    pub clause: String,
    pub what: String,
}

fn finding(clause: impl Into<String>, what: impl Into<String>) -> Finding {
    Finding { clause: clause.into(), what: what.into() }
}

/// The package was leaked after a panic in an earlier step (which was reported there).
pub fn no_package() -> Finding {
    finding("no-package", "the package was lost after an earlier panic")
}

pub fn panic_finding(ctx: &str, p: &PanicInfo) -> Finding {
    finding(format!("panic/{}", p.signature()), format!("{} panicked: {} at {}", ctx, p.message, p.location))
}

pub fn ptype_of(name: &str) -> msi::PackageType {
    match name {
        "Patch" => msi::PackageType::Patch,
        "Transform" => msi::PackageType::Transform,
        _ => msi::PackageType::Installer,
    }
}

pub struct Session {
    pub med: Medium,
    pub pkg: Option<Pkg>,
    pub model: Model,
    pub last: Option<Obs>,
    /// tokens of strings that were deleted and never re-inserted (C08)
    pub dead_tokens: Vec<String>,
}

/// First word of a diff text, used to keep signatures coarse.
pub fn diff_class(d: &str) -> String {
    let w: String = d.split(|c: char| c == ' ' || c == ':').next().unwrap_or("").to_string();
    match w.as_str() {
        "table" => {
            if d.starts_with("table list") {
                return "table-list".into();
            }
            if d.contains("rows") && d.contains(" vs ") && !d.contains("row ") {
                "table-rowcount".into()
            } else if d.contains("column") {
                "table-schema".into()
            } else if d.contains("ascending") {
                "table-order".into()
            } else if d.contains("same primary key") {
                "table-dupkey".into()
            } else {
                "table-rows".into()
            }
        }
        "package" | "database" | "user" | "stream" | "summary" | "has_digital_signature" => w,
        _ => "other".into(),
    }
}

impl Session {
    pub fn create(ptype: &'static str) -> Result<Session, Finding> {
        let med = Medium::new();
        let h = med.handle();
        let pkg = match guarded(|| msi::Package::create(ptype_of(ptype), h)) {
            Ok(Ok(p)) => p,
            Ok(Err(e)) => return Err(finding("create-error", format!("Package::create failed: {}", e))),
            Err(p) => return Err(panic_finding("Package::create", &p)),
        };
        let mut s = Session { med, pkg: Some(pkg), model: Model::created(ptype), last: None, dead_tokens: Vec::new() };
        let o = s.observe()?;
        s.last = Some(o);
        Ok(s)
    }

    /// Opens existing bytes; the model is initialised from the first observation.
    pub fn open(bytes: Vec<u8>) -> Result<Session, Finding> {
        let med = Medium::from_bytes(bytes);
        let h = med.handle();
        let pkg = match guarded(|| msi::Package::open(h)) {
            Ok(Ok(p)) => p,
            Ok(Err(e)) => return Err(finding("open-error", format!("Package::open failed: {}", e))),
            Err(p) => return Err(panic_finding("Package::open", &p)),
        };
        let mut s = Session { med, pkg: Some(pkg), model: Model::created("Installer"), last: None, dead_tokens: Vec::new() };
        let o = s.observe()?;
        s.model = Model::from_obs(&o);
        s.last = Some(o);
        Ok(s)
    }

    pub fn observe(&mut self) -> Result<Obs, Finding> {
        let pkg = match self.pkg.as_mut() {
            Some(p) => p,
            None => return Err(no_package()),
        };
        match guarded(|| observe(pkg)) {
            Ok(Ok((o, _issues))) => Ok(o),
            Ok(Err(e)) => Err(finding("observe-failed", format!("reading the package back failed: {}", e))),
            Err(p) => {
                self.leak();
                Err(panic_finding("reading the package back", &p))
            }
        }
    }

    fn observe_issues(&mut self) -> Result<(Obs, Vec<String>), Finding> {
        let pkg = match self.pkg.as_mut() {
            Some(p) => p,
            None => return Err(no_package()),
        };
        match guarded(|| observe(pkg)) {
            Ok(Ok((o, issues))) => Ok((o, issues.0)),
            Ok(Err(e)) => Err(finding("observe-failed", format!("reading the package back failed: {}", e))),
            Err(p) => {
                self.leak();
                Err(panic_finding("reading the package back", &p))
            }
        }
    }

    /// A package that panicked mid-call is leaked, never dropped.
    pub fn leak(&mut self) {
        if let Some(p) = self.pkg.take() {
            std::mem::forget(p);
        }
    }

    /// Executes one operation and evaluates the enabled monitors.
    pub fn apply(&mut self, op: &Op, mon: &Monitors, rep: &mut Report) -> Result<(), Finding> {
        // the model decides first whether the documentation fixes the outcome
        let mut trial = self.model.clone();
        let model_verdict = trial.apply(op);
        if model_verdict == Err(Reject::Ambiguous) {
            rep.count("ambiguous_conditions_skipped");
            return Ok(());
        }
        let before_dead: Vec<String> = if mon.saved_image { tokens_in_model(&self.model) } else { Vec::new() };
        let pkg = match self.pkg.as_mut() {
            Some(p) => p,
            None => return Err(no_package()),
        };
        let res = guarded(|| model::exec_op(pkg, op));
        let lib_ok = match res {
            Err(p) => {
                self.leak();
                return Err(panic_finding(&format!("{} call", op.kind()), &p));
            }
            Ok(Ok(())) => true,
            Ok(Err(e)) => {
                rep.count(&format!("call_err_{}", op.kind()));
                if model_verdict.is_ok() && std::env::var("VERIF_DEBUG_REJECTS").is_ok() {
                    eprintln!("REJECT {} -> {}", op.to_json(), e);
                }
                false
            }
        };
        if lib_ok {
            rep.count(&format!("call_ok_{}", op.kind()));
            match model_verdict {
                Ok(()) => self.model = trial,
                Err(r) => {
                    return Err(finding(
                        format!("accepted/{}/{:?}", op.kind(), reject_class(&r)),
                        format!("the library accepted {} although the relational model rejects it ({:?})", op.to_json(), r),
                    ));
                }
            }
        } else if model_verdict.is_ok() {
            rep.count("lib_rejected_model_accepted");
        }
        let (obs, issues) = self.observe_issues()?;
        if mon.api_issues {
            if let Some(i) = issues.first() {
                return Err(finding("api-consistency", i.clone()));
            }
        }
        if !lib_ok && mon.err_unchanged {
            if let Some(last) = &self.last {
                if let Some(d) = last.diff(&obs) {
                    return Err(finding(
                        format!("err-changed-state/{}/{}", op.kind(), diff_class(&d)),
                        format!("{} returned an error but changed the package: {}", op.to_json(), d),
                    ));
                }
            }
        }
        if mon.model_eq {
            if let Some(d) = self.model.diff_obs(&obs) {
                return Err(finding(format!("model/{}/{}", op.kind(), diff_class(&d)), format!("after {}: {}", op.to_json(), d)));
            }
            // frame condition on the catalog tables
            if !matches!(op, Op::CreateTable { .. } | Op::DropTable { .. }) {
                if let Some(last) = &self.last {
                    for c in ["_Tables", "_Columns", "_Validation"] {
                        if last.tables.get(c) != obs.tables.get(c) {
                            return Err(finding(
                                format!("frame/{}/{}", op.kind(), c),
                                format!("{} changed catalog table {}", op.to_json(), c),
                            ));
                        }
                    }
                }
            }
        }
        if mon.invariants {
            check_invariants(&obs)?;
        }
        if mon.saved_image {
            // strings that were in the model before and are not afterwards are dead
            let now = tokens_in_model(&self.model);
            for t in before_dead {
                if !now.contains(&t) && !self.dead_tokens.contains(&t) {
                    self.dead_tokens.push(t);
                }
            }
            self.dead_tokens.retain(|t| !now.contains(t));
            self.check_saved_image(&obs, rep)?;
        }
        self.last = Some(obs);
        Ok(())
    }

    /// C08: flush, decode with the independent decoder, account.
    pub fn check_saved_image(&mut self, obs: &Obs, rep: &mut Report) -> Result<(), Finding> {
        let pkg = match self.pkg.as_mut() {
            Some(p) => p,
            None => return Err(no_package()),
        };
        match guarded(|| pkg.flush()) {
            Ok(Ok(())) => {}
            Ok(Err(e)) => return Err(finding("flush-error", format!("flush failed: {}", e))),
            Err(p) => {
                self.leak();
                return Err(panic_finding("flush", &p));
            }
        }
        let bytes = self.med.live();
        rep.count("saved_images_decoded");
        check_image(&bytes, obs, &self.dead_tokens)
    }

    /// Close point (C01): observe, close in the given mode, reopen, compare,
    /// then the idempotence leg.  The session continues on the live package
    /// (flush) or on the reopened one.
    pub fn close_point(&mut self, mode: CloseMode, rep: &mut Report) -> Result<(), Finding> {
        let before = self.observe()?;
        rep.count(&format!("close_points_{:?}", mode));
        let m = format!("{:?}", mode);
        match mode {
            CloseMode::Flush => {
                let pkg = match self.pkg.as_mut() {
            Some(p) => p,
            None => return Err(no_package()),
        };
                match guarded(|| pkg.flush()) {
                    Ok(Ok(())) => {}
                    Ok(Err(e)) => return Err(finding("flush-error", format!("flush failed: {}", e))),
                    Err(p) => {
                        self.leak();
                        return Err(panic_finding("flush", &p));
                    }
                }
                // bytes durable at the moment flush returned (crash right after a successful flush)
                let durable = self.med.durable();
                let live = self.med.live();
                let after = reopen_observe(&durable).map_err(|e| finding(format!("reopen-fails/{}-durable", m), e))?;
                if let Some(d) = before.diff(&after) {
                    return Err(finding(
                        format!("reopen-differs/{}-durable/{}", m, diff_class(&d)),
                        format!("bytes durable when flush() returned Ok reopen differently: {}", d),
                    ));
                }
                if live != durable {
                    let after = reopen_observe(&live).map_err(|e| finding(format!("reopen-fails/{}-live", m), e))?;
                    if let Some(d) = before.diff(&after) {
                        return Err(finding(format!("reopen-differs/{}-live/{}", m, diff_class(&d)), format!("bytes after flush() reopen differently: {}", d)));
                    }
                }
                idempotence_leg(&live, &before, &m)?;
                // the live package itself must still report the same
                let still = self.observe()?;
                if let Some(d) = before.diff(&still) {
                    return Err(finding(format!("flush-changed-view/{}", diff_class(&d)), format!("flush() changed what the live package reports: {}", d)));
                }
                self.last = Some(still);
            }
            CloseMode::IntoInner | CloseMode::Drop => {
                let pkg = match self.pkg.take() {
                    Some(p) => p,
                    None => return Err(no_package()),
                };
                if mode == CloseMode::IntoInner {
                    match guarded(move || pkg.into_inner().map(|_h| ())) {
                        Ok(Ok(())) => {}
                        Ok(Err(e)) => return Err(finding("into_inner-error", format!("into_inner failed: {}", e))),
                        Err(p) => return Err(panic_finding("into_inner", &p)),
                    }
                } else if let Err(p) = guarded(move || drop(pkg)) {
                    return Err(panic_finding("drop", &p));
                }
                let bytes = self.med.live();
                let h = self.med.handle();
                let pkg = match guarded(|| msi::Package::open(h)) {
                    Ok(Ok(p)) => p,
                    Ok(Err(e)) => return Err(finding(format!("reopen-fails/{}", m), format!("reopening after {:?} failed: {}", mode, e))),
                    Err(p) => return Err(panic_finding("Package::open", &p)),
                };
                self.pkg = Some(pkg);
                let after = self.observe()?;
                if let Some(d) = before.diff(&after) {
                    return Err(finding(format!("reopen-differs/{}/{}", m, diff_class(&d)), format!("after {:?} and reopen: {}", mode, d)));
                }
                idempotence_leg(&bytes, &before, &m)?;
                self.last = Some(after);
            }
        }
        Ok(())
    }
}

fn reject_class(r: &Reject) -> &'static str {
    match r {
        Reject::UnknownTable => "UnknownTable",
        Reject::TableExists => "TableExists",
        Reject::UnknownColumn(_) => "UnknownColumn",
        Reject::Arity => "Arity",
        Reject::DuplicateKey => "DuplicateKey",
        Reject::NoSuchStream => "NoSuchStream",
        Reject::Ambiguous => "Ambiguous",
    }
}

/// Opens bytes (plain cursor) and observes.
pub fn reopen_observe(bytes: &[u8]) -> Result<Obs, String> {
    let r = guarded(|| {
        let mut p = msi::Package::open(Cursor::new(bytes.to_vec())).map_err(|e| format!("reopening the saved bytes failed: {}", e))?;
        observe(&mut p).map(|(o, _)| o)
    });
    match r {
        Ok(x) => x,
        Err(p) => Err(format!("reopening the saved bytes panicked: {} at {}", p.message, p.location)),
    }
}

/// Save again with no intervening change and reopen: nothing may differ.
fn idempotence_leg(bytes: &[u8], before: &Obs, mode: &str) -> Result<(), Finding> {
    let med = Medium::from_bytes(bytes.to_vec());
    let h = med.handle();
    let r = guarded(|| -> Result<(), String> {
        let mut p = msi::Package::open(h).map_err(|e| format!("open: {}", e))?;
        p.flush().map_err(|e| format!("flush: {}", e))?;
        drop(p);
        Ok(())
    });
    match r {
        Ok(Ok(())) => {}
        Ok(Err(e)) => return Err(finding(format!("resave-fails/{}", mode), format!("saving again without changes failed: {}", e))),
        Err(p) => return Err(panic_finding("re-save without changes", &p)),
    }
    let again = reopen_observe(&med.live()).map_err(|e| finding(format!("resave-reopen-fails/{}", mode), e))?;
    if let Some(d) = before.diff(&again) {
        return Err(finding(
            format!("resave-differs/{}/{}", mode, diff_class(&d)),
            format!("repeating save and reopen with no intervening change altered the package: {}", d),
        ));
    }
    Ok(())
}

pub fn tokens_in_model(m: &Model) -> Vec<String> {
    let mut out = Vec::new();
    for n in m.tables.keys() {
        if let Some(tok) = token_of(n) {
            out.push(tok);
        }
    }
    for t in m.tables.values() {
        for r in &t.rows {
            for v in r {
                if let V::Str(s) = v {
                    if let Some(tok) = token_of(s) {
                        out.push(tok);
                    }
                }
            }
        }
    }
    out
}

/// Extracts the unique token `t<case>x<n>` embedded in a generated string.
pub fn token_of(s: &str) -> Option<String> {
    let lower = s.to_lowercase();
    let b = lower.as_bytes();
    let mut i = 0;
    while i < b.len() {
        if b[i] == b't' && i + 1 < b.len() && b[i + 1].is_ascii_digit() {
            let mut j = i + 1;
            while j < b.len() && b[j].is_ascii_digit() {
                j += 1;
            }
            if j < b.len() && b[j] == b'x' && j + 1 < b.len() && b[j + 1].is_ascii_digit() {
                let mut k = j + 1;
                while k < b.len() && b[k].is_ascii_digit() {
                    k += 1;
                }
                return Some(lower[i..k].to_string());
            }
        }
        i += 1;
    }
    None
}

/// C05 invariants on one observation.
pub fn check_invariants(obs: &Obs) -> Result<(), Finding> {
    for (name, t) in &obs.tables {
        check_table_invariants(name, t)?;
    }
    Ok(())
}

pub fn check_table_invariants(name: &str, t: &TableObs) -> Result<(), Finding> {
    let kidx: Vec<usize> = t.cols.iter().enumerate().filter(|(_, c)| c.key).map(|(i, _)| i).collect();
    let kind = if is_catalog(name) { "catalog" } else { "user" };
    for w in t.rows.windows(2) {
        let a: Vec<V> = kidx.iter().map(|&i| w[0][i].norm()).collect();
        let b: Vec<V> = kidx.iter().map(|&i| w[1][i].norm()).collect();
        match key_cmp(&a, &b) {
            Some(Ordering::Equal) => {
                return Err(finding(format!("dupkey/{}", kind), format!("table {:?} holds two rows with primary key {}", name, row_json(&a))))
            }
            Some(Ordering::Greater) => {
                return Err(finding(
                    format!("order/{}", kind),
                    format!("table {:?}: rows not in ascending primary-key order ({} before {})", name, row_json(&a), row_json(&b)),
                ))
            }
            _ => {}
        }
    }
    // all keys pairwise distinct (also when null placement makes neighbours incomparable)
    let mut keys: Vec<Vec<V>> = t.rows.iter().map(|r| kidx.iter().map(|&i| r[i].norm()).collect()).collect();
    keys.sort();
    for w in keys.windows(2) {
        if w[0] == w[1] {
            return Err(finding(format!("dupkey/{}", kind), format!("table {:?} holds two rows with primary key {}", name, row_json(&w[0]))));
        }
    }
    for (ri, r) in t.rows.iter().enumerate() {
        for (ci, v) in r.iter().enumerate() {
            let col = &t.cols[ci];
            // a null read from a non-nullable string column counts as "": the format has ONE representation for
            // both, and the repository's own unit test (column::tests::valid_column_value) pins "" as a valid value
            // of a non-nullable string column, so the cell cannot read back as anything else
            let judged = if v.is_null() && !col.nullable && col.ty.is_str() { V::Str(String::new()) } else { v.clone() };
            if ref_valid(col, &judged) == Verdict::Invalid {
                return Err(finding(
                    format!("invalid-cell/{}", kind),
                    format!("table {:?} row {} column {:?} holds {} which the column ({}) does not declare valid", name, ri, col.name, v.to_json(), col.to_json()),
                ));
            }
        }
    }
    Ok(())
}

/// C08: saved image is a well-formed MSI database with exact string accounting
/// and agrees with what the API reports.
pub fn check_image(bytes: &[u8], obs: &Obs, dead_tokens: &[String]) -> Result<(), Finding> {
    let db = fmt_codec::decode(bytes).map_err(|e| finding("image/container", e))?;
    if let Some(p) = db.problems.first() {
        return Err(finding(format!("image/malformed/{}", problem_class(p)), format!("independent decoder: {}", p)));
    }
    let acc = fmt_codec::account(&db);
    if let Some(p) = acc.first() {
        return Err(finding(format!("image/accounting/{}", problem_class(p)), format!("string accounting: {} ({} problems)", p, acc.len())));
    }
    // catalog lists exactly the existing tables
    let api_tables: Vec<&String> = obs.tables.keys().filter(|n| *n != "_Tables" && *n != "_Columns").collect();
    let file_tables: Vec<&String> = db.tables.keys().filter(|n| *n != "_Tables" && *n != "_Columns").collect();
    if api_tables != file_tables {
        return Err(finding("image/table-list", format!("file lists tables {:?}, API reports {:?}", file_tables, api_tables)));
    }
    for (name, t) in &obs.tables {
        let raw = &db.tables[name];
        if raw.cols.len() != t.cols.len() {
            return Err(finding("image/columns", format!("table {:?}: file has {} columns, API {}", name, raw.cols.len(), t.cols.len())));
        }
        for (rc, c) in raw.cols.iter().zip(t.cols.iter()) {
            if rc.name != c.name || rc.is_string() != c.ty.is_str() || rc.key() != c.key {
                return Err(finding("image/columns", format!("table {:?}: file column {:?} (type {:#x}) vs API column {}", name, rc.name, rc.type_bits, c.to_json())));
            }
        }
        let file_rows = db.table_values(name).unwrap_or_default();
        if file_rows.len() != t.rows.len() {
            return Err(finding("image/rowcount", format!("table {:?}: file holds {} rows, API reports {}", name, file_rows.len(), t.rows.len())));
        }
        for (i, (fr, ar)) in file_rows.iter().zip(t.rows.iter()).enumerate() {
            let a: Vec<V> = ar.iter().map(|v| v.norm()).collect();
            let f: Vec<V> = fr.iter().map(|v| v.norm()).collect();
            if a != f {
                return Err(finding("image/cells", format!("table {:?} row {}: file decodes to {}, API reports {}", name, i, row_json(fr), row_json(ar))));
            }
        }
    }
    if obs.db_codepage != db.codepage() {
        return Err(finding("image/codepage", format!("pool header says code page {}, API reports {}", db.pool.codepage_id, obs.db_codepage)));
    }
    // no text of deleted rows / dropped tables remains in the string data.  The stream is the plain
    // concatenation of the entries (lengths sum to its size, checked above), so the search is done per
    // entry: adjacent entries must not be read as one text.
    if !dead_tokens.is_empty() {
        for (i, e) in db.pool.entries.iter().enumerate() {
            if e.len == 0 {
                continue;
            }
            let hay = e.text.to_lowercase();
            for t in dead_tokens {
                let mut from = 0;
                while let Some(p) = hay[from..].find(t.as_str()) {
                    let end = from + p + t.len();
                    let next_is_digit = hay.as_bytes().get(end).map(|b| b.is_ascii_digit()).unwrap_or(false);
                    if !next_is_digit {
                        return Err(finding(
                            "image/leftover-text",
                            format!(
                                "text of deleted data ({}…) is still present in _StringData: pool entry {} (refcount {}) holds {:?}",
                                t,
                                i + 1,
                                e.refcount,
                                e.text.chars().take(40).collect::<String>()
                            ),
                        ));
                    }
                    from = end;
                }
            }
        }
    }
    Ok(())
}

fn problem_class(p: &str) -> String {
    let keys = [
        ("refcount", "refcount"),
        ("dead pool entry", "dead-entry-text"),
        ("is the empty string", "live-empty-entry"),
        ("beyond the pool", "dangling-ref"),
        ("dead pool", "ref-to-dead"),
        ("not a multiple", "stream-length"),
        ("sum of pool lengths", "data-length"),
        ("past the end", "data-length"),
        ("column numbers", "column-numbers"),
        ("does not list", "orphan-stream"),
        ("twice", "duplicate"),
        ("no columns", "no-columns"),
        ("unknown code page", "codepage"),
    ];
    for (k, c) in keys {
        if p.contains(k) {
            return c.to_string();
        }
    }
    "other".into()
}

/// Fresh session, apply the steps, return the first finding.
pub fn replay_steps(ptype: &'static str, base: Option<&[u8]>, steps: &[Step], mon: &Monitors) -> Option<Finding> {
    let mut scratch = Report::new();
    let mut s = match base {
        Some(b) => match Session::open(b.to_vec()) {
            Ok(s) => s,
            Err(f) => return Some(f),
        },
        None => match Session::create(ptype) {
            Ok(s) => s,
            Err(f) => return Some(f),
        },
    };
    for st in steps {
        let r = match st {
            Step::Do(op) => s.apply(op, mon, &mut scratch),
            Step::Close(m) => s.close_point(*m, &mut scratch),
        };
        if let Err(f) = r {
            s.leak();
            return Some(f);
        }
    }
    None
}

/// Greedy minimisation: drop steps while the same clause still fires.
pub fn minimize(ptype: &'static str, base: Option<&[u8]>, steps: &[Step], mon: &Monitors, clause: &str) -> Vec<Step> {
    let mut cur: Vec<Step> = steps.to_vec();
    let mut budget = 200usize;
    let mut i = cur.len();
    while i > 0 && budget > 0 {
        i -= 1;
        if cur.len() <= 1 {
            break;
        }
        let mut cand = cur.clone();
        cand.remove(i);
        budget -= 1;
        if let Some(f) = replay_steps(ptype, base, &cand, mon) {
            if f.clause == clause {
                cur = cand;
            }
        }
    }
    cur
}
