//! Local SplitMix64 / xoshiro256** generator so that `VERIF_SEED` replays
//! bit-for-bit irrespective of crate versions.

#[derive(Clone, Debug)]
pub struct Rng {
    s: [u64; 4],
}

fn splitmix(x: &mut u64) -> u64 {
    *x = x.wrapping_add(0x9E37_79B9_7F4A_7C15);
    let mut z = *x;
    z = (z ^ (z >> 30)).wrapping_mul(0xBF58_476D_1CE4_E5B9);
    z = (z ^ (z >> 27)).wrapping_mul(0x94D0_49BB_1331_11EB);
    z ^ (z >> 31)
}

impl Rng {
    pub fn new(seed: u64) -> Rng {
        let mut x = seed ^ 0x5851_F42D_4C95_7F2D;
        let s = [splitmix(&mut x), splitmix(&mut x), splitmix(&mut x), splitmix(&mut x)];
        Rng { s }
    }

    /// Independent stream for (seed, a, b): used for shard / case derivation.
    pub fn derive(seed: u64, a: u64, b: u64) -> Rng {
        let mut x = seed;
        let k1 = splitmix(&mut x) ^ a.wrapping_mul(0xD6E8_FEB8_6659_FD93);
        let mut y = k1;
        let k2 = splitmix(&mut y) ^ b.wrapping_mul(0xA076_1D64_78BD_642F);
        Rng::new(k2)
    }

    pub fn next_u64(&mut self) -> u64 {
        let result = self.s[1].wrapping_mul(5).rotate_left(7).wrapping_mul(9);
        let t = self.s[1] << 17;
        self.s[2] ^= self.s[0];
        self.s[3] ^= self.s[1];
        self.s[1] ^= self.s[2];
        self.s[0] ^= self.s[3];
        self.s[2] ^= t;
        self.s[3] = self.s[3].rotate_left(45);
        result
    }

    /// Uniform in 0..n (n > 0).
    pub fn below(&mut self, n: u64) -> u64 {
        debug_assert!(n > 0);
        // multiply-shift; bias is negligible for the sizes used here
        ((self.next_u64() as u128 * n as u128) >> 64) as u64
    }

    pub fn usize(&mut self, n: usize) -> usize {
        self.below(n as u64) as usize
    }

    /// Uniform in lo..=hi.
    pub fn range(&mut self, lo: i64, hi: i64) -> i64 {
        debug_assert!(lo <= hi);
        let span = (hi as i128 - lo as i128 + 1) as u128;
        let r = ((self.next_u64() as u128 * span) >> 64) as i128;
        (lo as i128 + r) as i64
    }

    pub fn chance(&mut self, num: u64, den: u64) -> bool {
        self.below(den) < num
    }

    pub fn pick<'a, T>(&mut self, items: &'a [T]) -> &'a T {
        &items[self.usize(items.len())]
    }

    pub fn shuffle<T>(&mut self, items: &mut [T]) {
        for i in (1..items.len()).rev() {
            let j = self.usize(i + 1);
            items.swap(i, j);
        }
    }
}

/// 64-bit FNV-1a, used for case fingerprints.
pub fn fnv(bytes: &[u8]) -> u64 {
    let mut h: u64 = 0xcbf2_9ce4_8422_2325;
    for &b in bytes {
        h ^= b as u64;
        h = h.wrapping_mul(0x0000_0100_0000_01B3);
    }
    h
}
