//! Per-run accumulation of what the monitors observed, merged across worker
//! threads and written as one JSON document for the `check` driver.

use serde_json::{json, Map, Value as J};
use std::collections::{BTreeMap, HashSet};

#[derive(Clone, Debug)]
pub struct Violation {
    /// exact, minimal signature used for known-finding matching
    pub signature: String,
    pub what: String,
    pub witness: J,
}

#[derive(Default)]
pub struct Report {
    pub evaluations: u64,
    pub fingerprints: HashSet<u64>,
    pub counters: BTreeMap<String, u64>,
    pub samples: Vec<J>,
    pub violations: BTreeMap<String, (Violation, u64)>,
    pub inconclusive: Vec<String>,
    pub exhaustive_parts: Vec<String>,
    pub notes: Vec<String>,
}

pub const MAX_SAMPLES: usize = 5;
const MAX_DISTINCT_VIOLATIONS: usize = 400;

impl Report {
    pub fn new() -> Report {
        Report::default()
    }

    pub fn count(&mut self, key: &str) {
        *self.counters.entry(key.to_string()).or_insert(0) += 1;
    }

    pub fn add(&mut self, key: &str, n: u64) {
        *self.counters.entry(key.to_string()).or_insert(0) += n;
    }

    pub fn get(&self, key: &str) -> u64 {
        self.counters.get(key).copied().unwrap_or(0)
    }

    pub fn set_max(&mut self, key: &str, n: u64) {
        let e = self.counters.entry(key.to_string()).or_insert(0);
        if n > *e {
            *e = n;
        }
    }

    /// One case evaluated.  `fingerprint` is `Some(hash)` when the case is
    /// non-trivial by the property's rule.
    pub fn case(&mut self, fingerprint: Option<u64>) {
        self.evaluations += 1;
        if let Some(f) = fingerprint {
            self.fingerprints.insert(f);
        }
    }

    pub fn sample(&mut self, s: J) {
        if self.samples.len() < MAX_SAMPLES {
            self.samples.push(s);
        }
    }

    pub fn violation(&mut self, signature: String, what: String, witness: J) {
        if let Some(e) = self.violations.get_mut(&signature) {
            e.1 += 1;
            return;
        }
        if self.violations.len() >= MAX_DISTINCT_VIOLATIONS {
            self.count("violations_beyond_cap");
            return;
        }
        self.violations.insert(signature.clone(), (Violation { signature, what, witness }, 1));
    }

    pub fn n_violations(&self) -> usize {
        self.violations.len()
    }

    pub fn merge(&mut self, other: Report) {
        self.evaluations += other.evaluations;
        self.fingerprints.extend(other.fingerprints);
        for (k, v) in other.counters {
            if k.starts_with("max_") {
                self.set_max(&k, v);
            } else {
                *self.counters.entry(k).or_insert(0) += v;
            }
        }
        for s in other.samples {
            self.sample(s);
        }
        for (sig, (v, n)) in other.violations {
            if let Some(e) = self.violations.get_mut(&sig) {
                e.1 += n;
            } else if self.violations.len() < MAX_DISTINCT_VIOLATIONS {
                self.violations.insert(sig, (v, n));
            }
        }
        self.inconclusive.extend(other.inconclusive);
        for p in other.exhaustive_parts {
            if !self.exhaustive_parts.contains(&p) {
                self.exhaustive_parts.push(p);
            }
        }
        for n in other.notes {
            if !self.notes.contains(&n) {
                self.notes.push(n);
            }
        }
    }

    pub fn to_json(&self) -> J {
        let mut counters = Map::new();
        for (k, v) in &self.counters {
            counters.insert(k.clone(), json!(v));
        }
        json!({
            "evaluations": self.evaluations,
            "distinct_nontrivial": self.fingerprints.len(),
            "counters": counters,
            "samples": self.samples,
            "violations": self.violations.values().map(|(v, n)| json!({
                "signature": v.signature, "what": v.what, "witness": v.witness, "count": n,
            })).collect::<Vec<_>>(),
            "inconclusive": self.inconclusive,
            "exhaustive_parts": self.exhaustive_parts,
            "notes": self.notes,
        })
    }
}

/// Runs `f(shard, n_shards)` on `threads` worker threads and merges reports.
pub fn parallel<F>(threads: usize, f: F) -> Report
where
    F: Fn(usize, usize) -> Report + Sync,
{
    let threads = threads.max(1);
    let mut total = Report::new();
    if threads == 1 {
        total.merge(f(0, 1));
        return total;
    }
    let results: Vec<Result<Report, String>> = std::thread::scope(|scope| {
        let handles: Vec<_> = (0..threads)
            .map(|i| {
                let f = &f;
                std::thread::Builder::new()
                    .stack_size(64 << 20)
                    .spawn_scoped(scope, move || f(i, threads))
                    .expect("spawn worker")
            })
            .collect();
        handles
            .into_iter()
            .map(|h| h.join().map_err(|_| "worker thread panicked in harness code".to_string()))
            .collect()
    });
    for r in results {
        match r {
            Ok(rep) => total.merge(rep),
            Err(e) => total.inconclusive.push(e),
        }
    }
    total
}
