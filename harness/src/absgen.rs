//! Format-level generator: abstract MSI databases + encoder option vectors
//! (everything a well-formed foreign file may look like), and the expected
//! public observation derived from the *independent decoder's* view.

use crate::cpora;
use crate::fmt_codec::{self, AbsCol, AbsTable, EncOptions, RawDb};
use crate::observe::{Obs, SummaryObs, TableObs};
use crate::prng::Rng;
use crate::propset_codec::{self, PVal, PsEncOptions};
use crate::types::{ColDef, CATEGORIES, CT, V};
use serde_json::{json, Value as J};
use std::collections::BTreeMap;

#[derive(Clone, Debug)]
pub struct AbsDb {
    pub clsid: &'static str,
    pub tables: Vec<AbsTable>,
    pub with_validation: bool,
    pub streams: BTreeMap<String, Vec<u8>>,
    pub summary: Vec<(u32, PVal)>,
    pub enc: EncOptions,
    pub ps: PsEncOptions,
    pub option_tags: Vec<&'static str>,
}

fn validation_cols() -> Vec<AbsCol> {
    let s = |n: &str, w: i32, extra: i32| AbsCol { name: n.into(), type_bits: 0x800 | 0x400 | 0x100 | w | extra };
    vec![
        s("Table", 32, 0x2000),
        s("Column", 32, 0x2000),
        s("Nullable", 4, 0),
        AbsCol { name: "MinValue".into(), type_bits: 0x1000 | 0x100 | 4 },
        AbsCol { name: "MaxValue".into(), type_bits: 0x1000 | 0x100 | 4 },
        s("KeyTable", 255, 0x1000),
        AbsCol { name: "KeyColumn".into(), type_bits: 0x1000 | 0x400 | 0x100 | 2 },
        s("Category", 32, 0x1000),
        s("Set", 255, 0x1000),
        s("Description", 255, 0x1000),
    ]
}

pub struct AbsCfg {
    pub max_tables: usize,
    pub max_cols: usize,
    pub max_rows: usize,
}

fn text(rng: &mut Rng, page: i32, tok: &str, max: usize) -> String {
    let reper = cpora::repertoire(page, 8);
    let mut s = String::new();
    // one in twelve: the encoded form starts with bytes that look like a byte-order mark
    if rng.chance(1, 12) {
        let marks: [&[u8]; 3] = [&[0xFF, 0xFE], &[0xFE, 0xFF], &[0xEF, 0xBB, 0xBF]];
        let m = *rng.pick(&marks);
        let d = cpora::decode(page, m);
        if !d.contains('\u{fffd}') && cpora::encode(page, &d) == m {
            s.push_str(&d);
        }
    }
    s.push_str(tok);
    let extra = rng.usize(8);
    for _ in 0..extra {
        if !reper.is_empty() && rng.chance(1, 3) {
            s.push(*rng.pick(&reper));
        } else {
            s.push(*rng.pick(&['a', 'B', '7', ' ', '.', '_', ';', '-']));
        }
    }
    if max > 0 {
        s = s.chars().take(max).collect();
    }
    s
}

pub fn gen_absdb(rng: &mut Rng, case: u64, cfg: &AbsCfg, force: Option<&'static str>) -> AbsDb {
    let mut tags: Vec<&'static str> = Vec::new();
    let mut enc = EncOptions::default();
    let pages = cpora::all_ids();
    let page = if rng.chance(1, 3) { *rng.pick(&pages) } else { 65001 };
    enc.codepage_id = page as u32;
    let opt = |rng: &mut Rng, name: &'static str, num: u64, den: u64| -> bool { force == Some(name) || (force.is_none() && rng.chance(num, den)) };
    if opt(rng, "codepage0", 1, 10) {
        enc.codepage_id = 0;
        tags.push("codepage0");
    }
    let page = if enc.codepage_id == 0 { 65001 } else { enc.codepage_id as i32 };
    if page != 65001 {
        tags.push("non-utf8-page");
    }
    if opt(rng, "long-refs", 1, 4) {
        enc.long_refs = true;
        tags.push("long-refs");
    }
    if opt(rng, "holes", 1, 4) {
        enc.holes = 1 + rng.usize(6);
        tags.push("holes");
    }
    if opt(rng, "duplicates", 1, 4) {
        enc.duplicates = true;
        tags.push("duplicates");
    }
    if opt(rng, "overcount", 1, 5) {
        enc.overcount = 1 + rng.below(3) as u16;
        tags.push("overcount");
    }
    if opt(rng, "big-pool-string", 1, 12) {
        enc.extra_big_string = *rng.pick(&[65_535usize, 65_536, 70_000]);
        tags.push("big-pool-string");
    }
    let clsid = *rng.pick(&[fmt_codec::CLSID_INSTALLER, fmt_codec::CLSID_PATCH, fmt_codec::CLSID_TRANSFORM]);
    let with_validation = !opt(rng, "no-validation", 1, 4);
    if !with_validation {
        tags.push("no-validation");
    }
    let unsorted = opt(rng, "unsorted-rows", 1, 3);
    if unsorted {
        tags.push("unsorted-rows");
    }
    let size1 = opt(rng, "int-size-1", 1, 5);
    let wide = opt(rng, "32-columns", 1, 12);
    // more columns than the library itself creates (only when asked for: the C09 seeds)
    let over_wide = force == Some("40-columns");
    let big_cell = opt(rng, "big-cell-string", 1, 15);
    let n_tables = if force.is_some() { 1 + rng.usize(cfg.max_tables) } else { rng.usize(cfg.max_tables + 1) };
    let mut tables: Vec<AbsTable> = Vec::new();
    let mut vrows: Vec<Vec<V>> = Vec::new();
    let mut tokn = 0u64;
    let mut tok = || {
        tokn += 1;
        format!("t{}x{}", case, tokn)
    };
    for ti in 0..n_tables {
        let tname = format!("Tab{}_{}", ti, tok());
        let ncols = if over_wide && ti == 0 {
            tags.push("40-columns");
            33 + rng.usize(8)
        } else if wide && ti == 0 {
            tags.push("32-columns");
            32
        } else {
            1 + rng.usize(cfg.max_cols)
        };
        let nkeys = 1 + rng.usize(ncols.min(2));
        let mut cols: Vec<AbsCol> = Vec::new();
        let mut defs: Vec<(bool, bool, usize, Option<Vec<String>>)> = Vec::new(); // (is_str, nullable, width, enum)
        for ci in 0..ncols {
            let key = ci < nkeys;
            let is_str = rng.chance(1, 2);
            let nullable = !key && rng.chance(1, 2);
            let mut bits = 0x100;
            if key {
                bits |= 0x2000;
            }
            if nullable {
                bits |= 0x1000;
            }
            if rng.chance(1, 2) {
                bits |= 0x400;
            }
            let mut width = 0usize;
            if is_str {
                width = *rng.pick(&[0usize, 0, 20, 32, 64, 72, 255]);
                bits |= 0x800 | width as i32;
                if rng.chance(1, 6) {
                    bits |= 0x200;
                }
            } else if rng.chance(1, 2) {
                bits |= 4;
            } else if size1 {
                bits |= 1;
                if !tags.contains(&"int-size-1") {
                    tags.push("int-size-1");
                }
            } else {
                bits |= 2;
            }
            let cname = format!("C{}{}", ci, if rng.chance(1, 3) { "_x" } else { "" });
            cols.push(AbsCol { name: cname.clone(), type_bits: bits });
            let mut en: Option<Vec<String>> = None;
            if with_validation {
                let mut min = V::Null;
                let mut max = V::Null;
                let mut cat = V::Null;
                let mut set = V::Null;
                let mut kt = V::Null;
                let mut kc = V::Null;
                if !is_str && rng.chance(1, 4) {
                    min = V::Int(-100);
                    max = V::Int(30000);
                }
                if is_str && rng.chance(1, 3) {
                    cat = V::s(*rng.pick(&["Text", "Formatted", "Filename", "Template", "Condition", "Path"]));
                } else if is_str && !key && rng.chance(1, 6) {
                    let e: Vec<String> = (0..3).map(|j| format!("en{}", j)).collect();
                    set = V::Str(e.join(";"));
                    en = Some(e);
                }
                if rng.chance(1, 8) {
                    kt = V::s("OtherTable");
                    kc = V::Int(1 + rng.below(3) as i32);
                }
                // validation may be more permissive than the type word
                let vnull = nullable || (!key && rng.chance(1, 10));
                vrows.push(vec![V::Str(tname.clone()), V::Str(cname), V::s(if vnull { "Y" } else { "N" }), min, max, kt, kc, cat, set, if rng.chance(1, 4) { V::Str(text(rng, page, "desc", 60)) } else { V::Null }]);
            }
            defs.push((is_str, nullable, width, en));
        }
        let nrows = rng.usize(cfg.max_rows + 1);
        let mut rows: Vec<Vec<V>> = Vec::new();
        let mut keys = std::collections::BTreeSet::new();
        for ri in 0..nrows {
            let mut row = Vec::new();
            for (ci, (is_str, nullable, width, en)) in defs.iter().enumerate() {
                let key = ci < nkeys;
                if *nullable && rng.chance(1, 4) {
                    row.push(V::Null);
                } else if *is_str {
                    if let Some(e) = en {
                        row.push(V::Str(rng.pick(e).clone()));
                    } else if big_cell && ti == 0 && ri == 0 && !key && *width == 0 {
                        if !tags.contains(&"big-cell-string") {
                            tags.push("big-cell-string");
                        }
                        // around the 16-bit length escape: 65,534 / 65,535 / 65,536 bytes and well beyond
                        let t = tok();
                        let total = *rng.pick(&[65_534usize, 65_535, 65_535, 65_536, 66_000, 70_000]);
                        row.push(V::Str(format!("{}{}", t, "L".repeat(total - t.len()))));
                    } else if !key && rng.chance(1, 5) && !rows.is_empty() {
                        // share a string with an earlier row / another table
                        let prev: &Vec<V> = &rows[rng.usize(rows.len())];
                        match prev.iter().find(|v| matches!(v, V::Str(_))) {
                            Some(v) if *width == 0 => row.push(v.clone()),
                            _ => row.push(V::Str(text(rng, page, &tok(), *width))),
                        }
                    } else {
                        row.push(V::Str(text(rng, page, &tok(), *width)));
                    }
                } else {
                    let big = cols[ci].type_bits & 0xff == 4;
                    let v = match rng.below(5) {
                        0 => {
                            if big {
                                i32::MAX
                            } else {
                                32767
                            }
                        }
                        1 => {
                            if big {
                                -i32::MAX
                            } else {
                                -32767
                            }
                        }
                        2 => rng.range(-100, 100) as i32,
                        _ => {
                            if big {
                                rng.range(-(i32::MAX as i64), i32::MAX as i64) as i32
                            } else {
                                rng.range(-32767, 32767) as i32
                            }
                        }
                    };
                    row.push(V::Int(v));
                }
            }
            let k: Vec<V> = row[..nkeys].to_vec();
            if keys.insert(k) {
                rows.push(row);
            }
        }
        if unsorted {
            if rng.chance(1, 2) {
                rows.reverse();
            } else {
                rng.shuffle(&mut rows);
            }
        } else {
            rows.sort_by(|a, b| a[..nkeys].cmp(&b[..nkeys]));
        }
        tables.push(AbsTable { name: tname, cols, rows });
    }
    if with_validation {
        // the _Validation table describes itself too (as real files do), sorted by key
        vrows.sort();
        tables.push(AbsTable { name: "_Validation".into(), cols: validation_cols(), rows: vrows });
    }
    let mut streams = BTreeMap::new();
    for _ in 0..rng.usize(3) {
        // names in every packing situation: pairs, a lone last character (each of the 64 packable ones is stored
        // as its own code), unpackable characters, the longest names that fit
        let t = tok();
        let n = match rng.below(8) {
            0 => format!("Bin.{}", t),
            1 => format!("{}_", t),
            2 => format!("{}{}", t, rng.pick(&['_', '.', '9', 'z', 'A', '0', 'Z'])),
            3 => format!("_{}", t),
            4 => format!("{}é{}", t, rng.pick(&["", "_", "ab", "a"])),
            5 => format!("{}-{}", t, rng.pick(&["", "_", "ab", "a"])),
            6 => format!("{}{}", t, "_".repeat(61usize.saturating_sub(t.len()))),
            _ => format!("{}{}", t, "p".repeat(62usize.saturating_sub(t.len()))),
        };
        let len = *rng.pick(&[0usize, 5, 4096, 5000]);
        streams.insert(n, (0..len).map(|i| (i * 7) as u8).collect());
    }
    // summary property set
    let spage = if rng.chance(1, 3) { *rng.pick(&pages) } else { 65001 };
    // the code-page property may be absent or 0 (both mean the default code page)
    let cp_variant = rng.below(8);
    let spage = if cp_variant < 2 { 65001 } else { spage };
    let mut props: Vec<(u32, PVal)> = match cp_variant {
        0 => vec![],
        1 => vec![(1, PVal::I2(0))],
        _ => vec![(1, PVal::I2(spage as u16 as i16))],
    };
    if cp_variant < 2 {
        tags.push("summary-codepage-0-or-absent");
    }
    // one string property in twelve is the empty string
    let st = |rng: &mut Rng, t: &str| if rng.chance(1, 12) { PVal::LpStr(Vec::new()) } else { PVal::LpStr(cpora::encode(spage, &text(rng, spage, t, 0))) };
    if rng.chance(3, 4) {
        props.push((2, st(rng, "Title")));
    }
    if rng.chance(1, 2) {
        props.push((3, st(rng, "Subj")));
    }
    if rng.chance(1, 2) {
        props.push((4, st(rng, "Auth")));
    }
    if rng.chance(1, 2) {
        props.push((6, st(rng, "Comm")));
    }
    if rng.chance(1, 2) {
        props.push((7, PVal::LpStr(rng.pick(&["x64;1033", ";1033,1036", "Intel;", "Arm64", ";", "x64;0"]).as_bytes().to_vec())));
    }
    if rng.chance(1, 2) {
        props.push((9, PVal::LpStr(crate::gen::rand_guid(rng).into_bytes())));
    }
    if rng.chance(1, 2) {
        props.push((12, PVal::FileTime(rng.next_u64() >> rng.below(20))));
    }
    if rng.chance(1, 2) {
        props.push((15, PVal::I4(rng.range(-5, 5) as i32)));
    }
    if rng.chance(1, 2) {
        props.push((18, st(rng, "App")));
    }
    // properties the library does not interpret, in every supported value type
    let mut version = 0u16;
    if rng.chance(1, 3) {
        props.push((14, PVal::I4(200)));
        props.push((19, PVal::I4(2)));
    }
    if rng.chance(1, 4) {
        props.push((5, st(rng, "Keywords")));
    }
    if rng.chance(1, 5) {
        props.push((20, PVal::Empty));
        props.push((21, PVal::Null));
    }
    if rng.chance(1, 5) {
        props.push((22, PVal::I1(-7)));
        version = 1;
    }
    let mut ps = PsEncOptions { version, ..Default::default() };
    if props.iter().any(|p| matches!(&p.1, PVal::LpStr(b) if b.is_empty())) && rng.chance(1, 2) {
        ps.empty_strings_size0 = true;
        tags.push("summary-empty-string-size-0");
    }
    if opt(rng, "propset-shuffled", 1, 2) {
        let mut lo: Vec<usize> = (0..props.len()).collect();
        rng.shuffle(&mut lo);
        ps.layout_order = lo;
        let mut to: Vec<usize> = (0..props.len()).collect();
        rng.shuffle(&mut to);
        ps.table_order = to;
        tags.push("propset-shuffled");
    }
    if opt(rng, "propset-gaps", 1, 3) {
        ps.gap_words = 1 + rng.usize(2);
        ps.trailing_words = rng.usize(3);
        if rng.chance(1, 2) {
            ps.section_gap = 4 * (1 + rng.usize(3));
        }
        tags.push("propset-gaps");
    }
    if spage != 65001 {
        tags.push("summary-non-utf8-page");
    }
    AbsDb { clsid, tables, with_validation, streams, summary: props, enc, ps, option_tags: tags }
}

pub fn encode_absdb(db: &AbsDb) -> Result<Vec<u8>, String> {
    let summary = propset_codec::encode(&db.summary, &db.ps);
    fmt_codec::encode(db.clsid, &db.tables, &db.streams, &summary, &db.enc).map(|e| e.bytes)
}

impl AbsDb {
    pub fn to_json(&self) -> J {
        json!({
            "options": self.option_tags,
            "pool_codepage_id": self.enc.codepage_id,
            "tables": self.tables.iter().map(|t| json!({"name": t.name, "cols": t.cols.iter().map(|c| format!("{}:{:#x}", c.name, c.type_bits)).collect::<Vec<_>>(), "rows": t.rows.len()})).collect::<Vec<_>>(),
            "streams": self.streams.keys().collect::<Vec<_>>(),
            "summary_property_ids": self.summary.iter().map(|p| p.0).collect::<Vec<_>>(),
        })
    }
}

fn ptype_of_clsid(c: &str) -> &'static str {
    match c {
        fmt_codec::CLSID_PATCH => "Patch",
        fmt_codec::CLSID_TRANSFORM => "Transform",
        _ => "Installer",
    }
}

/// The public observation a correct reader must report for a decoded file:
/// built from the independent decoder's view only.
pub fn expected_obs(raw: &RawDb) -> Obs {
    let mut tables = BTreeMap::new();
    // validation rows by (table, column)
    let mut val: BTreeMap<(String, String), Vec<V>> = BTreeMap::new();
    if let Some(rows) = raw.table_values("_Validation") {
        for r in rows {
            if let (V::Str(t), V::Str(c)) = (&r[0], &r[1]) {
                val.insert((t.clone(), c.clone()), r.clone());
            }
        }
    }
    for (name, t) in &raw.tables {
        let mut cols = Vec::new();
        for c in &t.cols {
            let ty = if c.is_string() {
                CT::Str((c.type_bits & 0xff) as usize)
            } else if c.size_field() == 4 {
                CT::Int32
            } else {
                CT::Int16
            };
            let mut d = ColDef::new(&c.name, ty);
            d.nullable = c.nullable();
            d.key = c.key();
            d.localizable = c.localizable();
            if name == "_Tables" || name == "_Columns" {
                // hard-wired catalog schemas: no flags beyond the key
                d.nullable = false;
                d.localizable = false;
            }
            if let Some(v) = val.get(&(name.clone(), c.name.clone())) {
                if v[2] == V::s("Y") {
                    d.nullable = true;
                }
                if let (V::Int(a), V::Int(b)) = (&v[3], &v[4]) {
                    d.range = Some((*a, *b));
                }
                if let V::Str(cat) = &v[7] {
                    d.category = CATEGORIES.iter().find(|(n, _)| n == cat).map(|(n, _)| *n);
                    if cat == "Guid" {
                        d.category = Some("GUID");
                    }
                    if cat == "FormattedSddlText" {
                        d.category = Some("FormattedSDDLText");
                    }
                }
                if let V::Str(set) = &v[8] {
                    d.enums = set.split(';').map(|s| s.to_string()).collect();
                }
            }
            cols.push(d);
        }
        let rows = raw.table_values(name).unwrap_or_default();
        tables.insert(name.clone(), TableObs { cols, rows });
    }
    let mut summary = SummaryObs { codepage: 65001, ..Default::default() };
    if let Some(b) = &raw.summary_raw {
        let ps = propset_codec::parse(b);
        summary.codepage = ps.codepage();
        summary.title = ps.string(2);
        summary.subject = ps.string(3);
        summary.author = ps.string(4);
        summary.comments = ps.string(6);
        summary.creating_app = ps.string(18);
        summary.word_count = ps.int(15);
        summary.creation_time = ps.filetime(12).map(|t| -11_644_473_600i128 * 1_000_000_000 + (t as i128) * 100);
        summary.uuid = ps.string(9).and_then(|s| uuid::Uuid::parse_str(s.trim_start_matches('{').trim_end_matches('}')).ok()).map(|u| u.hyphenated().to_string());
        if let Some(t) = ps.string(7) {
            let (a, l) = match t.split_once(';') {
                Some((a, l)) => (a.to_string(), Some(l.to_string())),
                None => (t.clone(), None),
            };
            summary.arch = if a.is_empty() { None } else { Some(a) };
            summary.languages = l.map(|l| l.split(',').filter_map(|x| x.parse().ok()).collect()).unwrap_or_default();
        }
    }
    let mut stream_names: Vec<String> = raw.streams.keys().cloned().collect();
    stream_names.sort();
    Obs {
        ptype: ptype_of_clsid(&raw.clsid),
        db_codepage: raw.codepage(),
        tables,
        stream_names,
        streams: raw.streams.clone(),
        summary,
        has_sig: raw.has_signature,
    }
}
