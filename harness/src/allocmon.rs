//! Allocation monitor: a global-allocator wrapper that remembers the largest single request at or
//! above 1 GiB.  The C09 workers read it after every input: inputs are at most a few hundred KiB,
//! so a request of that size is driven by a length field in the file, not by the amount of data
//! (it aborts the process where that much address space is not available, and is a plain
//! "capacity overflow" panic on 32-bit targets).  Nothing is recorded below the threshold, so the
//! common path costs one comparison.

use std::alloc::{GlobalAlloc, Layout, System};
use std::sync::atomic::{AtomicUsize, Ordering};

pub const THRESHOLD: usize = 1 << 30;

static HUGE: AtomicUsize = AtomicUsize::new(0);

pub struct Monitor;

#[inline]
fn note(size: usize) {
    if size >= THRESHOLD {
        HUGE.fetch_max(size, Ordering::Relaxed);
    }
}

unsafe impl GlobalAlloc for Monitor {
    unsafe fn alloc(&self, layout: Layout) -> *mut u8 {
        note(layout.size());
        System.alloc(layout)
    }
    unsafe fn alloc_zeroed(&self, layout: Layout) -> *mut u8 {
        note(layout.size());
        System.alloc_zeroed(layout)
    }
    unsafe fn dealloc(&self, ptr: *mut u8, layout: Layout) {
        System.dealloc(ptr, layout)
    }
    unsafe fn realloc(&self, ptr: *mut u8, layout: Layout, new_size: usize) -> *mut u8 {
        note(new_size);
        System.realloc(ptr, layout, new_size)
    }
}

/// Forgets what was seen so far.
pub fn reset() {
    HUGE.store(0, Ordering::Relaxed);
}

/// Largest single request (>= 1 GiB) since the last `reset`, or 0.
pub fn largest() -> usize {
    HUGE.load(Ordering::Relaxed)
}
