//! Runtime-monitoring harness for mdsteele/rust-msi (see /verif/DESIGN.md).
pub mod absgen;
pub mod allocmon;
pub mod cpora;
pub mod engine;
pub mod fmt_codec;
pub mod gen;
pub mod propset_codec;
pub mod exprmodel;
pub mod exprparse;
pub mod querymodel;
pub mod medium;
pub mod model;
pub mod observe;
pub mod panicmon;
pub mod prng;
pub mod refpred;
pub mod report;
pub mod types;
pub mod props;

use serde_json::Value as J;

#[derive(Clone, Copy, Debug, PartialEq, Eq)]
pub enum Tier {
    Quick,
    Thorough,
}

#[derive(Clone, Debug)]
pub struct Ctx {
    pub tier: Tier,
    pub seed: u64,
    pub threads: usize,
    /// "checked" (optimised + overflow checks + debug assertions) or "release"
    pub profile: String,
    pub replay: Option<J>,
    /// scale factor for budgets (VERIF_SCALE, default 1.0)
    pub scale: f64,
}

impl Ctx {
    pub fn quick(&self) -> bool {
        self.tier == Tier::Quick
    }
    /// budget: q for quick, t for thorough, scaled
    pub fn budget(&self, q: u64, t: u64) -> u64 {
        let b = if self.quick() { q } else { t };
        ((b as f64) * self.scale).max(1.0) as u64
    }
    pub fn checked(&self) -> bool {
        cfg!(debug_assertions)
    }
}
