//! C13 — expression evaluation is total and follows the documented operators.
//!
//! Every tree is built twice: with literal leaves (constant folding at
//! construction) and with leaves that are columns of a one-row table holding
//! the same values (lazy evaluation); both results must lie in the reference
//! evaluator's admissible set and agree with each other, nothing may panic.
//! Trees are additionally used as select / update / delete conditions.

use crate::exprmodel::{self as em, Adm, Bin, MExpr, Un, ALL_BIN, ALL_UN};
use crate::medium::Medium;
use crate::panicmon::guarded;
use crate::prng::{fnv, Rng};
use crate::report::{parallel, Report};
use crate::types::V;
use crate::Ctx;
use serde_json::json;

type Pkg = msi::Package<crate::medium::Handle>;

pub struct Bed {
    pub pkg: Pkg,
    pub row: msi::Row,
    /// the same row with its columns in reverse order (a projection): evaluation goes by name, not position
    pub row_rev: msi::Row,
    pub env: Vec<(String, V)>,
}

/// One-row table X holding the leaf battery in columns.
pub fn make_bed() -> Bed {
    let m = Medium::new();
    let mut pkg = msi::Package::create(msi::PackageType::Installer, m.handle()).expect("create");
    let cols = vec![
        msi::Column::build("K").primary_key().int16(),
        msi::Column::build("cNull").nullable().int32(),
        msi::Column::build("c0").int32(),
        msi::Column::build("c1").int32(),
        msi::Column::build("cM1").int32(),
        msi::Column::build("c2").int32(),
        msi::Column::build("c31").int32(),
        msi::Column::build("c32").int32(),
        msi::Column::build("cMax").int32(),
        msi::Column::build("cA").string(8),
        msi::Column::build("cB").string(8),
    ];
    pkg.create_table("X", cols).expect("create X");
    let vals = vec![
        V::Int(7),
        V::Null,
        V::Int(0),
        V::Int(1),
        V::Int(-1),
        V::Int(2),
        V::Int(31),
        V::Int(32),
        V::Int(i32::MAX),
        V::s("a"),
        V::s("b"),
    ];
    pkg.insert_rows(msi::Insert::into("X").row(vals.iter().map(|v| v.to_msi()).collect())).expect("insert X");
    // a second one-row table, the other operand when the tree is used as a join condition
    pkg.create_table("Y", vec![msi::Column::build("Q").primary_key().int16()]).expect("create Y");
    pkg.insert_rows(msi::Insert::into("Y").row(vec![msi::Value::Int(1)])).expect("insert Y");
    let row = pkg.select_rows(msi::Select::table("X")).expect("select X").next().expect("one row");
    let names = ["K", "cNull", "c0", "c1", "cM1", "c2", "c31", "c32", "cMax", "cA", "cB"];
    let env = names.iter().zip(vals.iter()).map(|(n, v)| (n.to_string(), v.clone())).collect();
    let rev: Vec<&str> = names.iter().rev().cloned().collect();
    let row_rev = pkg.select_rows(msi::Select::table("X").columns(&rev)).expect("select X reversed").next().expect("one row");
    Bed { pkg, row, row_rev, env }
}

/// Replaces literal leaves by column references holding the same value.
pub fn columnize(e: &MExpr) -> MExpr {
    match e {
        MExpr::Lit(v) => match v {
            V::Null => MExpr::Col("cNull".into()),
            V::Int(0) => MExpr::Col("c0".into()),
            V::Int(1) => MExpr::Col("c1".into()),
            V::Int(-1) => MExpr::Col("cM1".into()),
            V::Int(2) => MExpr::Col("c2".into()),
            V::Int(31) => MExpr::Col("c31".into()),
            V::Int(32) => MExpr::Col("c32".into()),
            V::Int(i32::MAX) => MExpr::Col("cMax".into()),
            // i32::MIN cannot be stored in a cell (reserved for null): ~MAX evaluates to it lazily
            V::Int(i32::MIN) => MExpr::Un(Un::BitNot, Box::new(MExpr::Col("cMax".into()))),
            V::Str(s) if s == "a" => MExpr::Col("cA".into()),
            V::Str(s) if s == "b" => MExpr::Col("cB".into()),
            other => MExpr::Lit(other.clone()),
        },
        MExpr::Col(c) => MExpr::Col(c.clone()),
        MExpr::Un(o, a) => MExpr::Un(*o, Box::new(columnize(a))),
        MExpr::Bin(o, a, b) => MExpr::Bin(*o, Box::new(columnize(a)), Box::new(columnize(b))),
        MExpr::And(a, b) => MExpr::And(Box::new(columnize(a)), Box::new(columnize(b))),
        MExpr::Or(a, b) => MExpr::Or(Box::new(columnize(a)), Box::new(columnize(b))),
    }
}

fn root_name(e: &MExpr) -> String {
    match e {
        MExpr::Lit(v) => format!("lit:{}", v.class()),
        MExpr::Col(_) => "col".into(),
        MExpr::Un(o, _) => format!("{:?}", o),
        MExpr::Bin(o, _, _) => format!("{:?}", o),
        MExpr::And(_, _) => "And".into(),
        MExpr::Or(_, _) => "Or".into(),
    }
}

fn shape(e: &MExpr) -> String {
    match e {
        MExpr::Lit(v) => v.class().to_string(),
        MExpr::Col(c) => c.clone(),
        MExpr::Un(o, a) => format!("{:?}({})", o, shape(a)),
        MExpr::Bin(o, a, b) => format!("{:?}({},{})", o, shape(a), shape(b)),
        MExpr::And(a, b) => format!("And({},{})", shape(a), shape(b)),
        MExpr::Or(a, b) => format!("Or({},{})", shape(a), shape(b)),
    }
}

fn eval_lib(bed: &Bed, e: &MExpr) -> Result<V, crate::panicmon::PanicInfo> {
    guarded(|| {
        let x = em::lower(e);
        let v = V::from_msi(&x.eval(&bed.row));
        // the same expression object on a row with another column layout, and on the first row again
        let v2 = V::from_msi(&x.eval(&bed.row_rev));
        let v3 = V::from_msi(&x.eval(&bed.row));
        if v2 != v || v3 != v {
            // reported by the caller as a result outside the admissible set
            return V::Str(format!("<inconsistent: {} on the table row, {} on the same row with reversed columns, {} on the table row again>", v.to_json(), v2.to_json(), v3.to_json()));
        }
        v
    })
}

/// Checks one tree in both construction modes.
pub fn check_tree(rep: &mut Report, bed: &mut Bed, e: &MExpr, queries: bool) {
    let adm = match em::eval(e, &bed.env) {
        Some(a) => a,
        None => {
            rep.count("skipped_admissible_set_too_large");
            return;
        }
    };
    let text = em::show(e);
    let mut results: Vec<(&str, Option<V>)> = Vec::new();
    let lazy = columnize(e);
    for (mode, tree) in [("literal", e), ("lazy", &lazy)] {
        match eval_lib(bed, tree) {
            Ok(v) => {
                if !adm.contains(&v) {
                    rep.violation(
                        format!("C13/result/{}/{}", mode, root_name(e)),
                        format!(
                            "{} ({} leaves) evaluates to {} but the documented operators admit only {:?}",
                            text, mode, v.to_json(), adm.0
                        ),
                        json!({"expr": mexpr_to_json(e)}),
                    );
                }
                results.push((mode, Some(v)));
            }
            Err(p) => {
                if p.in_harness() {
                    rep.inconclusive.push(format!("harness panic: {} at {}", p.message, p.location));
                } else {
                    rep.violation(
                        format!("C13/panic/{}", p.signature()),
                        format!("{} panics when built/evaluated with {} leaves: {} at {}", text, mode, p.message, p.location),
                        json!({"expr": mexpr_to_json(e)}),
                    );
                }
                results.push((mode, None));
            }
        }
    }
    if let (Some(a), Some(b)) = (&results[0].1, &results[1].1) {
        if a != b {
            rep.violation(
                format!("C13/literal-vs-lazy/{}", root_name(e)),
                format!("{} gives {} when built from literals but {} when evaluated lazily", text, a.to_json(), b.to_json()),
                json!({"expr": mexpr_to_json(e)}),
            );
        }
    }
    rep.case(Some(fnv(shape(e).as_bytes())));
    if adm.0.len() > 1 {
        rep.count("trees_with_two_admissible_results");
    }
    if queries {
        check_as_condition(rep, bed, e, &lazy, &adm);
    }
}

fn check_as_condition(rep: &mut Report, bed: &mut Bed, e: &MExpr, lazy: &MExpr, adm: &Adm) {
    let truth = adm.truth();
    for (mode, tree) in [("literal", e), ("lazy", lazy)] {
        let r = guarded(|| {
            let q = msi::Select::table("X").with(em::lower(tree));
            bed.pkg.select_rows(q).map(|rows| rows.count())
        });
        rep.count("used_as_select_condition");
        match r {
            Ok(Ok(n)) => {
                if let Some(t) = truth {
                    if n != t as usize {
                        rep.violation(
                            format!("C13/select-condition/{}", root_name(e)),
                            format!("SELECT ... WHERE {} ({} leaves) yields {} rows, condition is {}", em::show(e), mode, n, t),
                            json!({"expr": mexpr_to_json(e), "query": "select"}),
                        );
                    }
                }
            }
            Ok(Err(err)) => rep.violation(
                format!("C13/select-error/{}", root_name(e)),
                format!("SELECT ... WHERE {} failed: {}", em::show(e), err),
                json!({"expr": mexpr_to_json(e), "query": "select"}),
            ),
            Err(p) => rep.violation(
                format!("C13/panic/{}", p.signature()),
                format!("SELECT ... WHERE {} panics: {} at {}", em::show(e), p.message, p.location),
                json!({"expr": mexpr_to_json(e), "query": "select"}),
            ),
        }
    }
}

/// The tree as the ON condition of an inner and a left join of the one-row table with itself
/// (columns are then named `X.<col>`): one joined row when true; none (inner) or one null-padded row (left) when false.
fn check_as_join_condition(rep: &mut Report, bed: &mut Bed, e: &MExpr, truth: bool) {
    fn qualify(e: &MExpr) -> MExpr {
        match e {
            MExpr::Col(c) => MExpr::Col(format!("X.{}", c)),
            MExpr::Lit(v) => MExpr::Lit(v.clone()),
            MExpr::Un(o, a) => MExpr::Un(*o, Box::new(qualify(a))),
            MExpr::Bin(o, a, b) => MExpr::Bin(*o, Box::new(qualify(a)), Box::new(qualify(b))),
            MExpr::And(a, b) => MExpr::And(Box::new(qualify(a)), Box::new(qualify(b))),
            MExpr::Or(a, b) => MExpr::Or(Box::new(qualify(a)), Box::new(qualify(b))),
        }
    }
    let on = qualify(&columnize(e));
    let nx = bed.env.len();
    for left in [false, true] {
        let r = guarded(|| {
            let q = if left {
                msi::Select::table("X").left_join(msi::Select::table("Y"), em::lower(&on))
            } else {
                msi::Select::table("X").inner_join(msi::Select::table("Y"), em::lower(&on))
            };
            bed.pkg.select_rows(q).map(|rows| {
                let rows: Vec<_> = rows.collect();
                let padded = rows.first().map(|r| (nx..r.len()).all(|i| r[i].is_null())).unwrap_or(false);
                (rows.len(), padded)
            })
        });
        rep.count("used_as_join_condition");
        let kind = if left { "left" } else { "inner" };
        match r {
            Ok(Ok((n, padded))) => {
                let ok = if left { n == 1 && padded != truth } else { n == truth as usize };
                if !ok {
                    rep.violation(
                        format!("C13/join-condition/{}/{}", kind, root_name(e)),
                        format!("X {} JOIN Y ON {}: {} rows (null-padded: {}), condition is {}", kind, em::show(&on), n, padded, truth),
                        json!({"expr": mexpr_to_json(e), "query": "join"}),
                    );
                }
            }
            Ok(Err(err)) => rep.violation(
                format!("C13/join-error/{}", root_name(e)),
                format!("X {} JOIN Y ON {} failed: {}", kind, em::show(&on), err),
                json!({"expr": mexpr_to_json(e), "query": "join"}),
            ),
            Err(p) => rep.violation(
                format!("C13/panic/{}", p.signature()),
                format!("X {} JOIN Y ON {} panics: {} at {}", kind, em::show(&on), p.message, p.location),
                json!({"expr": mexpr_to_json(e), "query": "join"}),
            ),
        }
    }
}

/// update / delete with the tree as condition on a scratch table; the table
/// must afterwards hold what the condition's truth dictates.
fn check_update_delete(rep: &mut Report, bed: &mut Bed, e: &MExpr) {
    let lazy = columnize(e);
    let adm = match em::eval(e, &bed.env) {
        Some(a) => a,
        None => return,
    };
    let truth = match adm.truth() {
        Some(t) => t,
        None => {
            rep.count("ambiguous_conditions_skipped");
            return;
        }
    };
    check_as_join_condition(rep, bed, e, truth);
    // UPDATE X SET K = 8 WHERE e ; then read K ; restore
    let r = guarded(|| {
        let q = msi::Update::table("X").set("K", msi::Value::Int(8)).with(em::lower(&lazy));
        bed.pkg.update_rows(q)?;
        let k = bed.pkg.select_rows(msi::Select::table("X"))?.next().map(|r| V::from_msi(&r[0]));
        bed.pkg.update_rows(msi::Update::table("X").set("K", msi::Value::Int(7)))?;
        Ok::<_, std::io::Error>(k)
    });
    rep.count("used_as_update_condition");
    match r {
        Ok(Ok(k)) => {
            let want = if truth { V::Int(8) } else { V::Int(7) };
            if k != Some(want.clone()) {
                rep.violation(
                    format!("C13/update-condition/{}", root_name(e)),
                    format!("UPDATE ... WHERE {}: key is {:?} afterwards, condition is {}", em::show(e), k, truth),
                    json!({"expr": mexpr_to_json(e), "query": "update"}),
                );
            }
        }
        Ok(Err(err)) => rep.violation(
            format!("C13/update-error/{}", root_name(e)),
            format!("UPDATE ... WHERE {} failed: {}", em::show(e), err),
            json!({"expr": mexpr_to_json(e), "query": "update"}),
        ),
        Err(p) => {
            rep.violation(
                format!("C13/panic/{}", p.signature()),
                format!("UPDATE ... WHERE {} panics: {} at {}", em::show(e), p.message, p.location),
                json!({"expr": mexpr_to_json(e), "query": "update"}),
            );
            std::mem::forget(std::mem::replace(bed, make_bed()));
            return;
        }
    }
    // DELETE FROM X WHERE e ; count ; restore
    let r = guarded(|| {
        bed.pkg.delete_rows(msi::Delete::from("X").with(em::lower(&lazy)))?;
        let n = bed.pkg.select_rows(msi::Select::table("X"))?.count();
        Ok::<_, std::io::Error>(n)
    });
    rep.count("used_as_delete_condition");
    match r {
        Ok(Ok(n)) => {
            let want = if truth { 0 } else { 1 };
            if n != want {
                rep.violation(
                    format!("C13/delete-condition/{}", root_name(e)),
                    format!("DELETE ... WHERE {}: {} rows remain, condition is {}", em::show(e), n, truth),
                    json!({"expr": mexpr_to_json(e), "query": "delete"}),
                );
            }
            if n == 0 {
                std::mem::forget(std::mem::replace(bed, make_bed()));
            }
        }
        Ok(Err(err)) => {
            rep.violation(
                format!("C13/delete-error/{}", root_name(e)),
                format!("DELETE ... WHERE {} failed: {}", em::show(e), err),
                json!({"expr": mexpr_to_json(e), "query": "delete"}),
            );
            std::mem::forget(std::mem::replace(bed, make_bed()));
        }
        Err(p) => {
            rep.violation(
                format!("C13/panic/{}", p.signature()),
                format!("DELETE ... WHERE {} panics: {} at {}", em::show(e), p.message, p.location),
                json!({"expr": mexpr_to_json(e), "query": "delete"}),
            );
            std::mem::forget(std::mem::replace(bed, make_bed()));
        }
    }
}

pub fn mexpr_to_json(e: &MExpr) -> serde_json::Value {
    match e {
        MExpr::Lit(V::Null) => json!({"lit": null}),
        MExpr::Lit(V::Int(i)) => json!({"lit": i}),
        MExpr::Lit(V::Str(s)) => json!({"lit": s}),
        MExpr::Col(c) => json!({"col": c}),
        MExpr::Un(o, a) => json!({"un": format!("{:?}", o), "a": mexpr_to_json(a)}),
        MExpr::Bin(o, a, b) => json!({"bin": format!("{:?}", o), "a": mexpr_to_json(a), "b": mexpr_to_json(b)}),
        MExpr::And(a, b) => json!({"and": [mexpr_to_json(a), mexpr_to_json(b)]}),
        MExpr::Or(a, b) => json!({"or": [mexpr_to_json(a), mexpr_to_json(b)]}),
    }
}

pub fn mexpr_from_json(j: &serde_json::Value) -> Option<MExpr> {
    if let Some(l) = j.get("lit") {
        return Some(MExpr::Lit(if l.is_null() {
            V::Null
        } else if let Some(i) = l.as_i64() {
            V::Int(i as i32)
        } else {
            V::Str(l.as_str()?.to_string())
        }));
    }
    if let Some(c) = j.get("col") {
        return Some(MExpr::Col(c.as_str()?.to_string()));
    }
    if let Some(o) = j.get("un") {
        let op = *ALL_UN.iter().find(|u| format!("{:?}", u) == o.as_str().unwrap_or(""))?;
        return Some(MExpr::Un(op, Box::new(mexpr_from_json(&j["a"])?)));
    }
    if let Some(o) = j.get("bin") {
        let op = *ALL_BIN.iter().find(|u| format!("{:?}", u) == o.as_str().unwrap_or(""))?;
        return Some(MExpr::Bin(op, Box::new(mexpr_from_json(&j["a"])?), Box::new(mexpr_from_json(&j["b"])?)));
    }
    if let Some(a) = j.get("and") {
        return Some(MExpr::And(Box::new(mexpr_from_json(&a[0])?), Box::new(mexpr_from_json(&a[1])?)));
    }
    if let Some(a) = j.get("or") {
        return Some(MExpr::Or(Box::new(mexpr_from_json(&a[0])?), Box::new(mexpr_from_json(&a[1])?)));
    }
    None
}

/// All depth-1 trees over the leaf battery.
pub fn depth1(leaves: &[V]) -> Vec<MExpr> {
    let mut out = Vec::new();
    for l in leaves {
        for u in ALL_UN.iter() {
            out.push(MExpr::Un(*u, Box::new(MExpr::Lit(l.clone()))));
        }
    }
    for a in leaves {
        for b in leaves {
            for o in ALL_BIN.iter() {
                out.push(MExpr::Bin(*o, Box::new(MExpr::Lit(a.clone())), Box::new(MExpr::Lit(b.clone()))));
            }
            out.push(MExpr::And(Box::new(MExpr::Lit(a.clone())), Box::new(MExpr::Lit(b.clone()))));
            out.push(MExpr::Or(Box::new(MExpr::Lit(a.clone())), Box::new(MExpr::Lit(b.clone()))));
        }
    }
    out
}

pub fn run(ctx: &Ctx) -> Report {
    let leaves = em::leaf_values();
    if let Some(w) = &ctx.replay {
        let mut rep = Report::new();
        let mut bed = make_bed();
        match mexpr_from_json(&w["expr"]) {
            Some(e) => {
                check_tree(&mut rep, &mut bed, &e, true);
                check_update_delete(&mut rep, &mut bed, &e);
            }
            None => rep.inconclusive.push("replay file has no expression".into()),
        }
        return rep;
    }
    let d1 = depth1(&leaves);
    let thorough = !ctx.quick();
    let seed = ctx.seed;
    let random_budget = ctx.budget(1_500_000, 20_000_000);
    let d1_ref = &d1;
    let leaves_ref = &leaves;
    let mut rep = parallel(ctx.threads, |shard, n| {
        let mut rep = Report::new();
        let mut bed = make_bed();
        // X1: all depth-1 trees, in both modes and as conditions of all three statement kinds
        for (k, e) in d1_ref.iter().enumerate() {
            if k % n != shard {
                continue;
            }
            check_tree(&mut rep, &mut bed, e, true);
            check_update_delete(&mut rep, &mut bed, e);
            rep.count("depth1_trees");
        }
        // X2: depth-2 trees with one composite child
        //     quick: a deterministic 1/40 slice; thorough: all
        let mut k = 0usize;
        for child in d1_ref.iter() {
            for l in leaves_ref.iter() {
                let leaf = MExpr::Lit(l.clone());
                let mut parents: Vec<MExpr> = Vec::with_capacity(40);
                for o in ALL_BIN.iter() {
                    parents.push(MExpr::Bin(*o, Box::new(child.clone()), Box::new(leaf.clone())));
                    parents.push(MExpr::Bin(*o, Box::new(leaf.clone()), Box::new(child.clone())));
                }
                parents.push(MExpr::And(Box::new(child.clone()), Box::new(leaf.clone())));
                parents.push(MExpr::And(Box::new(leaf.clone()), Box::new(child.clone())));
                parents.push(MExpr::Or(Box::new(child.clone()), Box::new(leaf.clone())));
                parents.push(MExpr::Or(Box::new(leaf.clone()), Box::new(child.clone())));
                for p in parents {
                    k += 1;
                    if k % n != shard {
                        continue;
                    }
                    if !thorough && (k / n) % 40 != 0 {
                        continue;
                    }
                    check_tree(&mut rep, &mut bed, &p, false);
                    rep.count("depth2_trees");
                }
            }
            for u in ALL_UN.iter() {
                k += 1;
                if k % n != shard {
                    continue;
                }
                check_tree(&mut rep, &mut bed, &MExpr::Un(*u, Box::new(child.clone())), false);
                rep.count("depth2_trees");
            }
        }
        // S: random deeper trees; a sample also as statement conditions
        let mut rng = Rng::derive(seed, 13, shard as u64);
        let per = random_budget / n as u64;
        for i in 0..per {
            let depth = 2 + rng.usize(5);
            let e = em::random_expr(&mut rng, depth, leaves_ref, &[]);
            let q = i % 50 == 0;
            check_tree(&mut rep, &mut bed, &e, q);
            if i % 400 == 0 {
                check_update_delete(&mut rep, &mut bed, &e);
            }
            rep.count("random_trees");
        }
        rep
    });
    rep.exhaustive_parts.push("all depth-1 trees over 18 operators + AND/OR x 12 leaves, literal and lazy".into());
    if thorough {
        rep.exhaustive_parts.push("all depth-2 trees with one composite child".into());
    }
    for e in [
        MExpr::Un(Un::Neg, Box::new(MExpr::Lit(V::Int(i32::MIN)))),
        MExpr::Bin(Bin::Div, Box::new(MExpr::Lit(V::Int(i32::MIN))), Box::new(MExpr::Lit(V::Int(-1)))),
        MExpr::Bin(Bin::Shl, Box::new(MExpr::Lit(V::Int(1))), Box::new(MExpr::Lit(V::Int(32)))),
        MExpr::Bin(Bin::Add, Box::new(MExpr::Lit(V::s("a"))), Box::new(MExpr::Lit(V::s("b")))),
    ] {
        let adm = em::eval(&e, &Vec::<(String, V)>::new());
        rep.sample(json!({"expr": em::show(&e), "lazy_form": em::show(&columnize(&e)), "admissible": adm.map(|a| a.0.iter().map(|v| v.to_json()).collect::<Vec<_>>())}));
    }
    rep
}
