//! C20 — capacity limits are enforced as errors, and symmetrically.
//!
//! Boundary monitor = panic supervisor + "Err changed nothing" (C04's oracle)
//! + "Ok reopens to the same state" (C01's oracle), for the operations that
//! bring each quantity to L-1, L and L+1: in one batch, incrementally with
//! reopen in between, and again after deletions freed capacity.

use crate::fmt_codec;
use crate::medium::Medium;
use crate::observe::{observe, Obs};
use crate::panicmon::guarded;
use crate::prng::fnv;
use crate::report::{parallel, Report};
use crate::Ctx;
use serde_json::json;
use std::io::{Cursor, Write};

type Pkg = msi::Package<crate::medium::Handle>;

thread_local! {
    /// Property the scenarios report under (C04 reuses them for "a refused call changes nothing").
    static PROP: std::cell::Cell<&'static str> = std::cell::Cell::new("C20");
}

struct Bench {
    med: Medium,
    pkg: Option<Pkg>,
}

#[derive(Debug, Clone, Copy, PartialEq, Eq)]
enum Outcome {
    Ok,
    Err,
}

struct Fail {
    clause: String,
    what: String,
}

impl Bench {
    fn new() -> Bench {
        let med = Medium::new();
        let pkg = msi::Package::create(msi::PackageType::Installer, med.handle()).expect("create");
        Bench { med, pkg: Some(pkg) }
    }

    fn obs(&mut self) -> Result<Obs, Fail> {
        let pkg = match self.pkg.as_mut() {
            Some(p) => p,
            // the package was leaked after a panic in an earlier step (already reported)
            None => return Err(Fail { clause: "no-package".into(), what: "package lost after an earlier panic".into() }),
        };
        match guarded(|| observe(pkg)) {
            Ok(Ok((o, _))) => Ok(o),
            Ok(Err(e)) => Err(Fail { clause: "observe-failed".into(), what: e }),
            Err(p) => Err(Fail { clause: format!("panic/{}", p.signature()), what: format!("reading back panicked: {}", p.message) }),
        }
    }

    /// Executes `f`; afterwards: Err => unchanged (live and after reopen), Ok => reopens to the same state.
    /// `light` skips the full before/after observation for the (huge) accepted steps that merely fill up.
    fn step(&mut self, what: &str, light: bool, f: impl FnOnce(&mut Pkg) -> std::io::Result<()>) -> Result<Outcome, Fail> {
        self.step_opts(what, light, true, f)
    }

    /// `check_saved = false`: only the live before/after comparison (for states that are deliberately not
    /// savable, e.g. while a catalog table is padded with rows that describe no real column).
    fn step_opts(&mut self, what: &str, light: bool, check_saved: bool, f: impl FnOnce(&mut Pkg) -> std::io::Result<()>) -> Result<Outcome, Fail> {
        let before = if light { None } else { Some(self.obs()?) };
        let pkg = match self.pkg.as_mut() {
            Some(p) => p,
            None => return Err(Fail { clause: "no-package".into(), what: "package lost after an earlier panic".into() }),
        };
        // the saved file's string accounting before the step (only compared when the step is refused)
        let acct_before = if light || !check_saved {
            None
        } else {
            let _ = guarded(|| pkg.flush());
            fmt_codec::decode(&self.med.live()).ok().map(|d| fmt_codec::account(&d))
        };
        let r = guarded(|| f(pkg));
        let out = match r {
            Err(p) => {
                if let Some(pk) = self.pkg.take() {
                    std::mem::forget(pk);
                }
                return Err(Fail { clause: format!("panic/{}", p.signature()), what: format!("{} panicked: {} at {}", what, p.message, p.location) });
            }
            Ok(Ok(())) => Outcome::Ok,
            Ok(Err(_)) => Outcome::Err,
        };
        if light {
            return Ok(out);
        }
        let after = self.obs()?;
        let before = before.unwrap();
        if out == Outcome::Err {
            if let Some(d) = before.diff(&after) {
                return Err(Fail { clause: "err-changed-package".into(), what: format!("{} returned an error but changed the package: {}", what, d) });
            }
        }
        if !check_saved {
            return Ok(out);
        }
        // save; the library must be able to read its own file, and read the same
        let pkg = self.pkg.as_mut().unwrap();
        match guarded(|| pkg.flush()) {
            Ok(Ok(())) => {}
            Ok(Err(e)) => return Err(Fail { clause: "flush-error".into(), what: format!("flush after {} failed: {}", what, e) }),
            Err(p) => {
                if let Some(pk) = self.pkg.take() {
                    std::mem::forget(pk);
                }
                return Err(Fail { clause: format!("panic/{}", p.signature()), what: format!("flush after {} panicked: {}", what, p.message) });
            }
        }
        let bytes = self.med.live();
        // a refused step must not leave strings behind in the saved file (entries nobody refers to),
        // and an accepted step must save a file whose string accounting is exact
        if let (Some(a0), Ok(d1)) = (&acct_before, fmt_codec::decode(&bytes)) {
            let a1 = fmt_codec::account(&d1);
            if a0.is_empty() && !a1.is_empty() {
                return Err(Fail {
                    clause: if out == Outcome::Err { "err-changed-saved-strings".into() } else { "saved-string-accounting".into() },
                    what: format!(
                        "{} {} the saved string pool no longer matches the saved tables: {}",
                        what,
                        if out == Outcome::Err { "returned an error but" } else { "succeeded but" },
                        a1[..a1.len().min(3)].join("; ")
                    ),
                });
            }
        }
        let re = guarded(|| {
            let mut p = msi::Package::open(Cursor::new(bytes)).map_err(|e| e.to_string())?;
            observe(&mut p).map(|(o, _)| o)
        });
        match re {
            Ok(Ok(o)) => {
                if let Some(d) = after.diff(&o) {
                    return Err(Fail { clause: "reopen-differs".into(), what: format!("after {} ({:?}) the saved file reads back differently: {}", what, out, d) });
                }
            }
            Ok(Err(e)) => {
                return Err(Fail {
                    clause: "saved-file-refused".into(),
                    what: format!("after {} ({:?}) the library refuses to read the file it saved: {}", what, out, e),
                })
            }
            Err(p) => return Err(Fail { clause: format!("panic/{}", p.signature()), what: format!("reopening after {} panicked: {}", what, p.message) }),
        }
        Ok(out)
    }

    fn reopen(&mut self) -> Result<(), Fail> {
        let pkg = self.pkg.take().unwrap();
        match guarded(move || pkg.into_inner().map(|_| ())) {
            Ok(Ok(())) => {}
            Ok(Err(e)) => return Err(Fail { clause: "into_inner-error".into(), what: e.to_string() }),
            Err(p) => return Err(Fail { clause: format!("panic/{}", p.signature()), what: p.message }),
        }
        let h = self.med.handle();
        match guarded(|| msi::Package::open(h)) {
            Ok(Ok(p)) => {
                self.pkg = Some(p);
                Ok(())
            }
            Ok(Err(e)) => Err(Fail { clause: "saved-file-refused".into(), what: format!("the library refuses to reopen its own file: {}", e) }),
            Err(p) => Err(Fail { clause: format!("panic/{}", p.signature()), what: p.message }),
        }
    }
}

fn expect(rep: &mut Report, limit: &str, mode: &str, what: &str, got: Result<Outcome, Fail>, want: Option<Outcome>) -> bool {
    rep.case(Some(fnv(format!("{}:{}:{}", limit, mode, what).as_bytes())));
    rep.count(&format!("boundary_steps_{}", limit));
    let w = json!({"kind": "capacity", "limit": limit, "mode": mode, "step": what});
    let prop = PROP.with(|p| p.get());
    match got {
        Err(f) if f.clause == "no-package" => false,
        Err(f) => {
            rep.violation(format!("{}/{}/{}/{}", prop, limit, mode, f.clause), format!("[{} / {}] {}", limit, mode, f.what), w);
            false
        }
        Ok(o) => {
            if let Some(wnt) = want {
                if o != wnt {
                    let clause = if wnt == Outcome::Ok { "refused-within-limit" } else { "accepted-beyond-limit" };
                    rep.violation(
                        format!("{}/{}/{}/{}", prop, limit, mode, clause),
                        format!("[{} / {}] {}: expected {:?}, got {:?}", limit, mode, what, wnt, o),
                        w,
                    );
                    return false;
                }
            }
            true
        }
    }
}

fn int_cols(n: usize) -> Vec<msi::Column> {
    (0..n).map(|i| if i == 0 { msi::Column::build("K").primary_key().int32() } else { msi::Column::build(format!("C{}", i)).nullable().int16() }).collect()
}

fn columns_limit(rep: &mut Report) {
    let mut b = Bench::new();
    for (n, want) in [(31usize, Outcome::Ok), (32, Outcome::Ok), (33, Outcome::Err), (64, Outcome::Err)] {
        let name = format!("Cols{}", n);
        let r = b.step(&format!("create_table with {} columns", n), false, |p| p.create_table(name.clone(), int_cols(n)));
        if !expect(rep, "columns-32", "one-call", &format!("{} columns", n), r, Some(want)) {
            b = Bench::new();
        }
    }
    // a 32-column table is usable: insert, reopen
    let r = b.step("insert into the 32-column table", false, |p| {
        p.insert_rows(msi::Insert::into("Cols32").row((0..32).map(|i| msi::Value::Int(i + 1)).collect()))
    });
    expect(rep, "columns-32", "one-call", "row with 32 values", r, Some(Outcome::Ok));
}

fn rows(from: i32, to: i32) -> Vec<Vec<msi::Value>> {
    // rows beyond the limit carry a string nobody else uses (a refused row must not leave it behind)
    (from..to).map(|i| vec![msi::Value::Int(i), if i > 65_536 { msi::Value::Str(format!("beyond-{}", i)) } else { msi::Value::Null }]).collect()
}

fn row_cols() -> Vec<msi::Column> {
    vec![msi::Column::build("K").primary_key().int32(), msi::Column::build("V").nullable().string(32)]
}

fn row_limit(rep: &mut Report, mode: &str) {
    const L: i32 = 65_536;
    let mut b = Bench::new();
    b.pkg.as_mut().unwrap().create_table("R", row_cols()).expect("create R");
    let ins = |from: i32, to: i32| move |p: &mut Pkg| p.insert_rows(msi::Insert::into("R").rows(rows(from, to)));
    let mut ok = true;
    match mode {
        "one-batch" => {
            ok &= expect(rep, "rows-65536", mode, "batch of L-1 rows", b.step("insert of 65,535 rows", false, ins(1, L)), Some(Outcome::Ok));
            ok &= ok && expect(rep, "rows-65536", mode, "1 more row (reaches L)", b.step("insert bringing the table to 65,536 rows", false, ins(L, L + 1)), Some(Outcome::Ok));
            ok &= ok && expect(rep, "rows-65536", mode, "1 more row (L+1)", b.step("insert bringing the table to 65,537 rows", false, ins(L + 1, L + 2)), Some(Outcome::Err));
            if ok {
                // a fresh table, L+1 rows in a single batch
                b.pkg.as_mut().unwrap().create_table("R2", row_cols()).expect("create R2");
                let r = b.step("single batch of 65,537 rows", false, |p| p.insert_rows(msi::Insert::into("R2").rows(rows(1, L + 2))));
                expect(rep, "rows-65536", mode, "single batch of L+1 rows", r, Some(Outcome::Err));
                let r = b.step("single batch of 65,536 rows", false, |p| p.insert_rows(msi::Insert::into("R2").rows(rows(1, L + 1))));
                expect(rep, "rows-65536", mode, "single batch of L rows", r, Some(Outcome::Ok));
            }
        }
        "incremental-with-reopen" => {
            let mut at = 1;
            for chunk in [30_000, 30_000, 5_530] {
                let r = b.step(&format!("insert of {} rows", chunk), true, ins(at, at + chunk));
                ok &= expect(rep, "rows-65536", mode, &format!("fill to {}", at + chunk - 1), r, Some(Outcome::Ok));
                at += chunk;
                if ok {
                    if let Err(f) = b.reopen() {
                        rep.violation(format!("C20/rows-65536/{}/{}", mode, f.clause), f.what, json!({"limit": "rows-65536", "mode": mode}));
                        return;
                    }
                }
            }
            // at = 65,531: rows so far 65,530
            ok &= ok && expect(rep, "rows-65536", mode, "to L-1", b.step("insert to 65,535 rows", false, ins(at, L)), Some(Outcome::Ok));
            ok &= ok && expect(rep, "rows-65536", mode, "to L", b.step("insert to 65,536 rows", false, ins(L, L + 1)), Some(Outcome::Ok));
            if ok {
                let _ = b.reopen();
            }
            ok &= ok && expect(rep, "rows-65536", mode, "to L+1 after reopen", b.step("insert to 65,537 rows after reopen", false, ins(L + 1, L + 2)), Some(Outcome::Err));
            ok &= ok && expect(rep, "rows-65536", mode, "two more rows", b.step("insert of 2 rows at the limit", false, ins(L + 1, L + 3)), Some(Outcome::Err));
        }
        _ => {
            // after deletions freed capacity
            ok &= expect(rep, "rows-65536", mode, "fill to L", b.step("insert of 65,536 rows", true, ins(1, L + 1)), Some(Outcome::Ok));
            ok &= ok && expect(rep, "rows-65536", mode, "L+1", b.step("insert to 65,537 rows", false, ins(L + 1, L + 2)), Some(Outcome::Err));
            let del = |p: &mut Pkg| p.delete_rows(msi::Delete::from("R").with(msi::Expr::col("K").le(msi::Expr::integer(10))));
            ok &= ok && expect(rep, "rows-65536", mode, "delete 10 rows", b.step("delete of 10 rows", false, del), Some(Outcome::Ok));
            ok &= ok && expect(rep, "rows-65536", mode, "10 rows into the freed capacity", b.step("insert of 10 rows after deletion", false, ins(L + 1, L + 11)), Some(Outcome::Ok));
            ok &= ok && expect(rep, "rows-65536", mode, "1 more (L+1 again)", b.step("insert beyond the limit after refill", false, ins(L + 20, L + 21)), Some(Outcome::Err));
        }
    }
    let _ = ok;
}

fn pool_entries(b: &mut Bench) -> usize {
    let _ = b.pkg.as_mut().unwrap().flush();
    fmt_codec::decode(&b.med.live()).map(|d| d.pool.entries.len()).unwrap_or(0)
}

/// Pool entries that are in use (an unused entry is taken again before the pool grows).
fn pool_live(b: &mut Bench) -> usize {
    let _ = b.pkg.as_mut().unwrap().flush();
    fmt_codec::decode(&b.med.live()).map(|d| d.pool.entries.iter().filter(|e| e.refcount > 0).count()).unwrap_or(0)
}

fn strs(from: usize, to: usize) -> Vec<Vec<msi::Value>> {
    (from..to).map(|i| vec![msi::Value::Str(format!("s{:05}", i)), msi::Value::Null]).collect()
}

/// Updates at a completely full pool: a shared string replaced by a new one needs a new entry (Err),
/// by an existing one fits (Ok); replacing every reference frees the entry first (Ok).
fn updates_at_full_pool(rep: &mut Report, b: &mut Bench, mode: &str) {
    let upd = |key: &'static str, val: &'static str| {
        move |p: &mut Pkg| p.update_rows(msi::Update::table("S").set("V", msi::Value::from(val)).with(msi::Expr::col("K").eq(msi::Expr::string(key))))
    };
    // a cell that holds NULL gets a string nobody has pooled yet: needs a new entry
    let r = b.step("update of a null cell to a new string at the pool limit", false, upd("s00010", "brand new 0"));
    if !expect(rep, "pool-65535", mode, "update null cell -> new string (needs a new entry)", r, Some(Outcome::Err)) {
        return;
    }
    // the empty string is stored as null: it never needs an entry
    let r = b.step("update of a null cell to the empty string at the pool limit", false, upd("s00011", ""));
    if !expect(rep, "pool-65535", mode, "update null cell -> empty string (needs no entry)", r, Some(Outcome::Ok)) {
        return;
    }
    let r = b.step("update of a string cell to the empty string at the pool limit", false, upd("zr1", ""));
    if !expect(rep, "pool-65535", mode, "update shared -> empty string (needs no entry)", r, Some(Outcome::Ok)) {
        return;
    }
    let r = b.step("update back to the shared string at the pool limit", false, upd("zr1", "shared"));
    if !expect(rep, "pool-65535", mode, "update empty -> existing string", r, Some(Outcome::Ok)) {
        return;
    }
    let r = b.step("update of a shared string to a new string at the pool limit", false, upd("zr1", "brand new 1"));
    if !expect(rep, "pool-65535", mode, "update shared -> new string (needs a new entry)", r, Some(Outcome::Err)) {
        return;
    }
    let r = b.step("update of a shared string to an existing string at the pool limit", false, upd("zr1", "s00007"));
    if !expect(rep, "pool-65535", mode, "update shared -> existing string", r, Some(Outcome::Ok)) {
        return;
    }
    let r = b.step("update of the last reference to a new string at the pool limit", false, upd("zr2", "brand new 2"));
    if !expect(rep, "pool-65535", mode, "update last reference -> new string (slot is released first)", r, Some(Outcome::Ok)) {
        return;
    }
    // the same column assigned twice in one update: the first new string is released again before the second is interned
    let twice = |p: &mut Pkg| {
        p.update_rows(msi::Update::table("S").set("V", msi::Value::from("brand new 3")).set("V", msi::Value::from("brand new 4")).with(msi::Expr::col("K").eq(msi::Expr::string("zr2"))))
    };
    let r = b.step("update assigning a column twice (two new strings, one at a time) at the pool limit", false, twice);
    expect(rep, "pool-65535", mode, "update last reference -> new string, assigned twice", r, Some(Outcome::Ok));
}

/// 65,535 pool entries with two-byte references.
fn pool_limit(rep: &mut Report, mode: &str) {
    const CAP: usize = 65_535;
    let mut b = Bench::new();
    b.pkg
        .as_mut()
        .unwrap()
        .create_table("S", vec![msi::Column::build("K").primary_key().string(16), msi::Column::build("V").nullable().string(16)])
        .expect("create S");
    // two rows share one string in V (a release of one of them frees no pool entry)
    b.pkg
        .as_mut()
        .unwrap()
        .insert_rows(msi::Insert::into("S").row(vec![msi::Value::from("zr1"), msi::Value::from("shared")]).row(vec![msi::Value::from("zr2"), msi::Value::from("shared")]))
        .expect("insert shared rows");
    let base = pool_entries(&mut b);
    let room = CAP - base; // distinct strings that still fit
    let ins = |from: usize, to: usize| move |p: &mut Pkg| p.insert_rows(msi::Insert::into("S").rows(strs(from, to)));
    let mut ok = true;
    match mode {
        "one-batch" => {
            ok &= expect(rep, "pool-65535", mode, "fill to L-1", b.step("insert of distinct strings up to 65,534 pool entries", true, ins(0, room - 1)), Some(Outcome::Ok));
            ok &= ok && expect(rep, "pool-65535", mode, "to L", b.step("insert reaching 65,535 pool entries", false, ins(room - 1, room)), Some(Outcome::Ok));
            ok &= ok && expect(rep, "pool-65535", mode, "to L+1", b.step("insert needing a 65,536th pool entry", false, ins(room, room + 1)), Some(Outcome::Err));
            if ok {
                updates_at_full_pool(rep, &mut b, mode);
            }
            // an already-pooled string still fits (no new entry needed): a second table referencing existing text
            if ok {
                let r = b.step("create a second table (new catalog strings) at the pool limit", false, |p| {
                    p.create_table("S2", vec![msi::Column::build("K").primary_key().string(16)])
                });
                expect(rep, "pool-65535", mode, "create_table at the pool limit", r, None);
            }
        }
        "create-table-at-limit" => {
            // exactly three free entries: a table whose catalog rows need four new strings is refused
            // as a whole, one that needs exactly three fits
            ok &= expect(rep, "pool-65535", mode, "fill to L", b.step("insert of distinct strings up to 65,535 pool entries", true, ins(0, room)), Some(Outcome::Ok));
            let del = |p: &mut Pkg| p.delete_rows(msi::Delete::from("S").with(msi::Expr::col("K").lt(msi::Expr::string("s00003"))));
            ok &= ok && expect(rep, "pool-65535", mode, "delete 3 strings", b.step("delete of 3 rows", false, del), Some(Outcome::Ok));
            let with_enum = |p: &mut Pkg| {
                p.create_table("Extra", vec![msi::Column::build("Key2").primary_key().string(16), msi::Column::build("Mode").nullable().enum_values(&["red", "green"]).string(16)])
            };
            ok &= ok && expect(rep, "pool-65535", mode, "create_table needing 4 new strings with 3 free", b.step("create_table (names + an enumeration) with 3 free pool entries", false, with_enum), Some(Outcome::Err));
            let with_cat = |p: &mut Pkg| {
                p.create_table("Extra", vec![msi::Column::build("Key2").primary_key().string(16), msi::Column::build("Mode").nullable().category(msi::Category::Cabinet).string(16)])
            };
            ok &= ok && expect(rep, "pool-65535", mode, "create_table needing names + a category with 3 free", b.step("create_table (names + a category new to the pool) with 3 free pool entries", false, with_cat), Some(Outcome::Err));
            let with_fk = |p: &mut Pkg| {
                p.create_table("Extra", vec![msi::Column::build("Key2").primary_key().string(16), msi::Column::build("Mode").nullable().foreign_key("Elsewhere", 1).string(16)])
            };
            ok &= ok && expect(rep, "pool-65535", mode, "create_table needing names + a foreign-key table name with 3 free", b.step("create_table (names + a foreign key) with 3 free pool entries", false, with_fk), None);
            let plain = |p: &mut Pkg| p.create_table("Extra", vec![msi::Column::build("Key2").primary_key().string(16), msi::Column::build("Mode").nullable().string(16)]);
            ok &= ok && expect(rep, "pool-65535", mode, "create_table needing exactly 3 new strings", b.step("create_table (names only) with 3 free pool entries", false, plain), Some(Outcome::Ok));
            ok &= ok && expect(rep, "pool-65535", mode, "1 more string", b.step("insert of a new string at the refilled limit", false, ins(room, room + 1)), Some(Outcome::Err));
        }
        "shared-strings-over-sessions" => {
            // W shares each of its strings between two rows: a session that deletes one user of each only lowers
            // reference counts; the entries are freed two sessions later and must then be usable again
            b.pkg
                .as_mut()
                .unwrap()
                .create_table("W", vec![msi::Column::build("K").primary_key().int32(), msi::Column::build("V").nullable().string(16)])
                .expect("create W");
            b.pkg
                .as_mut()
                .unwrap()
                .insert_rows(msi::Insert::into("W").rows(vec![
                    vec![msi::Value::Int(1), msi::Value::from("w-shared")],
                    vec![msi::Value::Int(2), msi::Value::from("w-shared")],
                    vec![msi::Value::Int(3), msi::Value::from("w-other")],
                    vec![msi::Value::Int(4), msi::Value::from("w-other")],
                ]))
                .expect("insert W");
            let room = CAP - pool_entries(&mut b);
            ok &= expect(rep, "pool-65535", mode, "fill to L", b.step("insert of distinct strings up to 65,535 pool entries", true, ins(0, room)), Some(Outcome::Ok));
            if ok {
                let _ = b.reopen();
            }
            let del = |ks: [i32; 2]| move |p: &mut Pkg| p.delete_rows(msi::Delete::from("W").with(msi::Expr::col("K").eq(msi::Expr::integer(ks[0])).or(msi::Expr::col("K").eq(msi::Expr::integer(ks[1])))));
            ok &= ok && expect(rep, "pool-65535", mode, "delete one user of each shared string", b.step("delete that only lowers reference counts", false, del([1, 3])), Some(Outcome::Ok));
            if ok {
                let _ = b.reopen();
            }
            ok &= ok && expect(rep, "pool-65535", mode, "delete the last users (frees 2 entries)", b.step("delete of the last users of two strings", false, del([2, 4])), Some(Outcome::Ok));
            if ok {
                let _ = b.reopen();
            }
            ok &= ok && expect(rep, "pool-65535", mode, "2 new strings into the freed entries", b.step("insert of 2 new strings after the shared strings were released", false, ins(room, room + 2)), Some(Outcome::Ok));
            ok &= ok && expect(rep, "pool-65535", mode, "1 more", b.step("insert beyond the limit after refill", false, ins(room + 2, room + 3)), Some(Outcome::Err));
        }
        "existing-string-after-a-freed-entry" => {
            // one entry near the front is freed; a string that already has an entry further back is referenced
            // once more (no new distinct string); then one new distinct string must still fit
            b.pkg
                .as_mut()
                .unwrap()
                .create_table("W", vec![msi::Column::build("K").primary_key().int32(), msi::Column::build("V").nullable().string(16)])
                .expect("create W");
            let room = CAP - pool_entries(&mut b);
            ok &= expect(rep, "pool-65535", mode, "fill to L", b.step("insert of distinct strings up to 65,535 pool entries", true, ins(0, room)), Some(Outcome::Ok));
            let del = |p: &mut Pkg| p.delete_rows(msi::Delete::from("S").with(msi::Expr::col("K").eq(msi::Expr::string("s00003"))));
            ok &= ok && expect(rep, "pool-65535", mode, "free one entry near the front", b.step("delete of one row", false, del), Some(Outcome::Ok));
            let again = format!("s{:05}", room - 5);
            let reuse = move |p: &mut Pkg| p.insert_rows(msi::Insert::into("W").row(vec![msi::Value::Int(1), msi::Value::Str(again)]));
            ok &= ok && expect(rep, "pool-65535", mode, "one more reference to an existing string", b.step("insert referencing a string that is already pooled", false, reuse), Some(Outcome::Ok));
            ok &= ok && expect(rep, "pool-65535", mode, "one new distinct string (65,535 distinct in all)", b.step("insert of one new string into the freed entry", false, ins(room, room + 1)), Some(Outcome::Ok));
            ok &= ok && expect(rep, "pool-65535", mode, "1 more", b.step("insert beyond the limit", false, ins(room + 1, room + 2)), Some(Outcome::Err));
        }
        "drop-table-frees-capacity" => {
            // a dropped table gives its strings back: the same number of new strings fits again
            ok &= expect(rep, "pool-65535", mode, "fill to L", b.step("insert of distinct strings up to 65,535 pool entries", true, ins(0, room)), Some(Outcome::Ok));
            ok &= ok && expect(rep, "pool-65535", mode, "drop the table that holds them", b.step("drop_table of the table holding nearly all strings", false, |p| p.drop_table("S")), Some(Outcome::Ok));
            if ok {
                let _ = b.reopen();
            }
            let recreate = |p: &mut Pkg| p.create_table("S", vec![msi::Column::build("K").primary_key().string(16), msi::Column::build("V").nullable().string(16)]);
            ok &= ok && expect(rep, "pool-65535", mode, "create the table again", b.step("create_table after the drop", false, recreate), Some(Outcome::Ok));
            let fresh = |from: usize, to: usize| move |p: &mut Pkg| p.insert_rows(msi::Insert::into("S").rows((from..to).map(|i| vec![msi::Value::Str(format!("n{:05}", i)), msi::Value::Null]).collect()));
            let room2 = if ok { CAP - pool_live(&mut b) } else { 0 };
            if ok && room2 < room {
                rep.violation(
                    format!("{}/pool-65535/{}/capacity-not-released", PROP.with(|p| p.get()), mode),
                    format!("[pool-65535 / {}] after drop_table of a table holding {} strings only {} pool entries are free", mode, room, room2),
                    json!({"kind": "capacity", "limit": "pool-65535", "mode": mode, "step": "free entries after drop_table"}),
                );
                ok = false;
            }
            ok &= ok && expect(rep, "pool-65535", mode, "as many NEW strings as fit", b.step("insert of new distinct strings into the released entries", true, fresh(0, room2)), Some(Outcome::Ok));
            ok &= ok && expect(rep, "pool-65535", mode, "1 more", b.step("insert beyond the limit after the refill", false, fresh(room2, room2 + 1)), Some(Outcome::Err));
        }
        "reference-count-overflow-at-full-pool" => {
            // one string referenced 65,534 times; a row holding it twice needs a second entry for it
            b.pkg
                .as_mut()
                .unwrap()
                .create_table("D", vec![msi::Column::build("K").primary_key().int32(), msi::Column::build("A").nullable().string(8), msi::Column::build("B").nullable().string(8)])
                .expect("create D");
            let dup_rows: Vec<Vec<msi::Value>> = (1..=32_767).map(|i| vec![msi::Value::Int(i), msi::Value::from("dup"), msi::Value::from("dup")]).collect();
            ok &= expect(rep, "pool-65535", mode, "65,534 references to one string", b.step("insert of 32,767 rows referencing one string twice each", true, move |p| p.insert_rows(msi::Insert::into("D").rows(dup_rows))), Some(Outcome::Ok));
            let room = CAP - pool_entries(&mut b);
            ok &= ok && expect(rep, "pool-65535", mode, "fill to L", b.step("insert of distinct strings up to 65,535 pool entries", true, ins(0, room)), Some(Outcome::Ok));
            let twice = |k: i32| move |p: &mut Pkg| p.insert_rows(msi::Insert::into("D").row(vec![msi::Value::Int(k), msi::Value::from("dup"), msi::Value::from("dup")]));
            ok &= ok && expect(rep, "pool-65535", mode, "row whose second reference needs a new entry", b.step("insert of a row that takes the string's reference count past 65,535 at a full pool", false, twice(40_000)), Some(Outcome::Err));
            let once = |p: &mut Pkg| p.insert_rows(msi::Insert::into("D").row(vec![msi::Value::Int(40_001), msi::Value::from("dup"), msi::Value::Null]));
            ok &= ok && expect(rep, "pool-65535", mode, "65,535th reference", b.step("insert of a row with the 65,535th reference", false, once), Some(Outcome::Ok));
            let del = |p: &mut Pkg| p.delete_rows(msi::Delete::from("S").with(msi::Expr::col("K").eq(msi::Expr::string("s00003"))));
            ok &= ok && expect(rep, "pool-65535", mode, "free one entry", b.step("delete of one row", false, del), Some(Outcome::Ok));
            ok &= ok && expect(rep, "pool-65535", mode, "the same kind of row with one free entry", b.step("insert of a row that needs a second entry for the string, one entry free", false, twice(40_002)), Some(Outcome::Ok));
        }
        "incremental-with-reopen" => {
            let third = room / 3;
            let mut at = 0;
            for i in 0..3 {
                let to = if i == 2 { room - 2 } else { at + third };
                ok &= ok && expect(rep, "pool-65535", mode, &format!("fill part {}", i), b.step("insert of distinct strings", true, ins(at, to)), Some(Outcome::Ok));
                at = to;
                if ok {
                    if let Err(f) = b.reopen() {
                        rep.violation(format!("C20/pool-65535/{}/{}", mode, f.clause), f.what, json!({"limit": "pool-65535", "mode": mode}));
                        return;
                    }
                }
            }
            ok &= ok && expect(rep, "pool-65535", mode, "to L-1", b.step("insert to 65,534 pool entries", false, ins(at, at + 1)), Some(Outcome::Ok));
            ok &= ok && expect(rep, "pool-65535", mode, "to L", b.step("insert to 65,535 pool entries", false, ins(at + 1, at + 2)), Some(Outcome::Ok));
            if ok {
                let _ = b.reopen();
            }
            ok &= ok && expect(rep, "pool-65535", mode, "to L+1 after reopen", b.step("insert needing a 65,536th pool entry after reopen", false, ins(at + 2, at + 3)), Some(Outcome::Err));
            if ok {
                updates_at_full_pool(rep, &mut b, mode);
            }
            ok &= ok && expect(rep, "pool-65535", mode, "batch of 3 beyond", b.step("batch insert of 3 new strings at the limit", false, ins(at + 2, at + 5)), Some(Outcome::Err));
        }
        _ => {
            ok &= expect(rep, "pool-65535", mode, "fill to L", b.step("insert of distinct strings up to 65,535 pool entries", true, ins(0, room)), Some(Outcome::Ok));
            ok &= ok && expect(rep, "pool-65535", mode, "L+1", b.step("insert needing a 65,536th pool entry", false, ins(room, room + 1)), Some(Outcome::Err));
            let del = |p: &mut Pkg| p.delete_rows(msi::Delete::from("S").with(msi::Expr::col("K").lt(msi::Expr::string("s00005"))));
            ok &= ok && expect(rep, "pool-65535", mode, "delete 5 strings", b.step("delete of 5 rows", false, del), Some(Outcome::Ok));
            ok &= ok && expect(rep, "pool-65535", mode, "5 new strings into freed slots", b.step("insert of 5 new strings after deletion", false, ins(room, room + 5)), Some(Outcome::Ok));
            ok &= ok && expect(rep, "pool-65535", mode, "1 more", b.step("insert beyond the limit after refill", false, ins(room + 5, room + 6)), Some(Outcome::Err));
            // an update that needs a new entry at the limit
            let upd = |p: &mut Pkg| p.update_rows(msi::Update::table("S").set("K", msi::Value::from("brand new")).with(msi::Expr::col("K").eq(msi::Expr::string("s00010"))));
            ok &= ok && expect(rep, "pool-65535", mode, "update reusing the released slot", b.step("update of one key to a new string at the limit", false, upd), None);
        }
    }
    let _ = ok;
}

/// The catalog tables have the same row limit as every table: `_Columns` filled (through the API) to two rows
/// below it, then tables whose columns fit / do not fit.
fn catalog_row_limit(rep: &mut Report) {
    const L: usize = 65_536;
    let (limit, mode) = ("catalog-rows-65536", "create-table");
    let mut b = Bench::new();
    b.pkg.as_mut().unwrap().create_table("Filler", vec![msi::Column::build("K").primary_key().int16()]).expect("create Filler");
    let base = b.pkg.as_mut().unwrap().select_rows(msi::Select::table("_Columns")).map(|r| r.count()).unwrap_or(0);
    // padding rows: further "columns" of Filler (removed again before the package is saved)
    let pad: Vec<Vec<msi::Value>> = (-32_767..=32_767)
        .filter(|n| *n != 1)
        .take(L - 2 - base)
        .map(|n| vec![msi::Value::from("Filler"), msi::Value::Int(n), msi::Value::from("Pad"), msi::Value::Int(0x1502)])
        .collect();
    let mut ok = expect(rep, limit, mode, "pad _Columns to L-2 rows", b.step_opts("insert of padding rows into _Columns", true, false, move |p| p.insert_rows(msi::Insert::into("_Columns").rows(pad))), Some(Outcome::Ok));
    let cols = |n: usize| -> Vec<msi::Column> { (0..n).map(|i| if i == 0 { msi::Column::build("K").primary_key().int16() } else { msi::Column::build(format!("C{}", i)).nullable().int16() }).collect() };
    ok &= ok && expect(rep, limit, mode, "table with 3 columns (2 rows free)", b.step_opts("create_table needing 3 catalog rows with 2 free", false, false, |p| p.create_table("Cat3", cols(3))), Some(Outcome::Err));
    ok &= ok && expect(rep, limit, mode, "table with 1 column (to L-1)", b.step_opts("create_table needing 1 catalog row", false, false, |p| p.create_table("Cat1", cols(1))), Some(Outcome::Ok));
    ok &= ok && expect(rep, limit, mode, "table with 2 columns (1 row free)", b.step_opts("create_table needing 2 catalog rows with 1 free", false, false, |p| p.create_table("Cat2", cols(2))), Some(Outcome::Err));
    ok &= ok && expect(rep, limit, mode, "table with 1 column (to L)", b.step_opts("create_table needing the last catalog row", false, false, |p| p.create_table("Cat1b", cols(1))), Some(Outcome::Ok));
    ok &= ok && expect(rep, limit, mode, "one more table", b.step_opts("create_table at the catalog row limit", false, false, |p| p.create_table("Cat1c", cols(1))), Some(Outcome::Err));
    // no trace of the refused tables in the catalog
    if ok {
        let n = b
            .pkg
            .as_mut()
            .unwrap()
            .select_rows(msi::Select::table("_Tables").with(msi::Expr::col("Name").eq(msi::Expr::string("Cat3")).or(msi::Expr::col("Name").eq(msi::Expr::string("Cat2"))).or(msi::Expr::col("Name").eq(msi::Expr::string("Cat1c")))))
            .map(|r| r.count())
            .unwrap_or(usize::MAX);
        if n != 0 {
            rep.violation(
                format!("{}/{}/{}/err-changed-package", PROP.with(|p| p.get()), limit, mode),
                format!("[{} / {}] _Tables holds {} row(s) for tables whose creation was refused at the catalog row limit", limit, mode, n),
                json!({"kind": "capacity", "limit": limit, "mode": mode, "step": "catalog rows of refused tables"}),
            );
            ok = false;
        }
    }
    // the padding is removed; what is saved now must reopen to the same state
    let unpad = |p: &mut Pkg| p.delete_rows(msi::Delete::from("_Columns").with(msi::Expr::col("Table").eq(msi::Expr::string("Filler")).and(msi::Expr::col("Number").ne(msi::Expr::integer(1)))));
    ok &= ok && expect(rep, limit, mode, "remove the padding, save, reopen", b.step("delete of the padding rows", false, unpad), Some(Outcome::Ok));
    let _ = ok;
}

/// The same for `_Validation` (one row per column): padded to one row below the limit with rows for 256 x 256
/// (table, column) name pairs, removed again before the package is saved.
fn validation_row_limit(rep: &mut Report) {
    const L: usize = 65_536;
    let (limit, mode) = ("catalog-rows-65536", "validation-rows");
    let mut b = Bench::new();
    let base = b.pkg.as_mut().unwrap().select_rows(msi::Select::table("_Validation")).map(|r| r.count()).unwrap_or(0);
    let pad: Vec<Vec<msi::Value>> = (0..L - 1 - base)
        .map(|i| {
            let mut row = vec![msi::Value::Str(format!("F{}", i / 256)), msi::Value::Str(format!("P{}", i % 256)), msi::Value::from("Y")];
            row.extend(std::iter::repeat(msi::Value::Null).take(7));
            row
        })
        .collect();
    let mut ok = expect(rep, limit, mode, "pad _Validation to L-1 rows", b.step_opts("insert of padding rows into _Validation", true, false, move |p| p.insert_rows(msi::Insert::into("_Validation").rows(pad))), Some(Outcome::Ok));
    let cols = |n: usize| -> Vec<msi::Column> { (0..n).map(|i| if i == 0 { msi::Column::build("K").primary_key().int16() } else { msi::Column::build(format!("C{}", i)).nullable().int16() }).collect() };
    ok &= ok && expect(rep, limit, mode, "table with 2 columns (1 row free)", b.step_opts("create_table needing 2 validation rows with 1 free", false, false, |p| p.create_table("Val2", cols(2))), Some(Outcome::Err));
    ok &= ok && expect(rep, limit, mode, "table with 1 column (to L)", b.step_opts("create_table needing the last validation row", false, false, |p| p.create_table("Val1", cols(1))), Some(Outcome::Ok));
    ok &= ok && expect(rep, limit, mode, "one more table", b.step_opts("create_table at the validation row limit", false, false, |p| p.create_table("Val1b", cols(1))), Some(Outcome::Err));
    if ok {
        let has = b.pkg.as_ref().unwrap().has_table("Val2") || b.pkg.as_ref().unwrap().has_table("Val1b");
        if has {
            rep.violation(
                format!("{}/{}/{}/err-changed-package", PROP.with(|p| p.get()), limit, mode),
                format!("[{} / {}] a table whose creation was refused at the _Validation row limit is reported by has_table", limit, mode),
                json!({"kind": "capacity", "limit": limit, "mode": mode, "step": "has_table of refused tables"}),
            );
            ok = false;
        }
    }
    let unpad = |p: &mut Pkg| p.delete_rows(msi::Delete::from("_Validation").with(msi::Expr::col("Column").ge(msi::Expr::string("P0")).and(msi::Expr::col("Column").le(msi::Expr::string("P99999"))).and(msi::Expr::col("Table").ge(msi::Expr::string("F0"))).and(msi::Expr::col("Table").le(msi::Expr::string("F99999")))));
    ok &= ok && expect(rep, limit, mode, "remove the padding, save, reopen", b.step("delete of the padding rows", false, unpad), Some(Outcome::Ok));
    let _ = ok;
}

/// Cell strings around the 16-bit length field of a pool entry (65,535 bytes and its neighbours) are within
/// every limit: accepted, and the saved file reads back the same.
fn string_length_boundary(rep: &mut Report) {
    let (limit, mode) = ("string-length-65535", "cells");
    let mut b = Bench::new();
    b.pkg
        .as_mut()
        .unwrap()
        .create_table("Long", vec![msi::Column::build("K").primary_key().string(8), msi::Column::build("V").nullable().string(0)])
        .expect("create Long");
    for (i, len) in [65_534usize, 65_535, 65_536, 65_537, 131_071].iter().enumerate() {
        let key = format!("k{}", i);
        let text = format!("{}{}", i, "x".repeat(len - 1));
        let r = b.step(&format!("insert of a {}-byte string followed by short ones", len), false, move |p| {
            p.insert_rows(msi::Insert::into("Long").row(vec![msi::Value::Str(key.clone()), msi::Value::Str(text)]).row(vec![msi::Value::Str(format!("{}z", key)), msi::Value::from("short")]))
        });
        if !expect(rep, limit, mode, &format!("{} bytes", len), r, Some(Outcome::Ok)) {
            return;
        }
    }
    // the same under a single-byte code page with text that is longer in UTF-8 than encoded (and vice versa)
    b.pkg.as_mut().unwrap().set_database_codepage(msi::CodePage::Windows1252);
    for (i, n) in [32_767usize, 32_768, 40_000, 65_535].iter().enumerate() {
        let key = format!("e{}", i);
        let text = "é".repeat(*n);
        let r = b.step(&format!("insert of {} x 'é' under code page 1252", n), false, move |p| {
            p.insert_rows(msi::Insert::into("Long").row(vec![msi::Value::Str(key.clone()), msi::Value::Str(text)]).row(vec![msi::Value::Str(format!("{}z", key)), msi::Value::from("after")]))
        });
        if !expect(rep, limit, mode, &format!("{} two-byte characters under a single-byte page", n), r, Some(Outcome::Ok)) {
            return;
        }
    }
}

fn name_limits(rep: &mut Report) {
    let mut b = Bench::new();
    let kcols = || vec![msi::Column::build("K").primary_key().int16()];
    // stream names: packed two characters per UTF-16 unit; unpackable characters one unit each
    for (units, name, want) in [
        (30, "p".repeat(60), Outcome::Ok),
        (31, "p".repeat(61), Outcome::Ok),
        (31, "p".repeat(62), Outcome::Ok),
        (32, "p".repeat(63), Outcome::Err),
        (32, "p".repeat(64), Outcome::Err),
        (30, "é".repeat(30), Outcome::Ok),
        (31, "é".repeat(31), Outcome::Ok),
        (32, "é".repeat(32), Outcome::Err),
        (30, "😀".repeat(15), Outcome::Ok),
        (32, "😀".repeat(16), Outcome::Err),
        (31, format!("{}é", "p".repeat(60)), Outcome::Ok),
        (32, format!("{}é", "p".repeat(62)), Outcome::Err),
    ] {
        let n2 = name.clone();
        let r = b.step(&format!("write_stream with a name of {} stored units", units), false, move |p| {
            let mut w = p.write_stream(&n2)?;
            w.write_all(b"payload")?;
            w.flush()
        });
        if !expect(rep, "name-31-units", "stream", &format!("{} units ({} chars)", units, name.chars().count()), r, Some(want)) {
            b = Bench::new();
        }
    }
    // table names: identifier, container limit 31 units incl. the table marker, catalog width 32 characters
    for (len, want) in [(31usize, Some(Outcome::Ok)), (32, Some(Outcome::Ok)), (33, Some(Outcome::Err)), (60, Some(Outcome::Err)), (61, Some(Outcome::Err)), (62, Some(Outcome::Err))] {
        let name: String = std::iter::once('T').chain(std::iter::repeat('n').take(len - 1)).collect();
        let r = b.step(&format!("create_table with a {}-character name", len), false, |p| p.create_table(name.clone(), kcols()));
        if !expect(rep, "table-name", "create", &format!("{} characters", len), r, want) {
            b = Bench::new();
        }
        if want == Some(Outcome::Ok) {
            let r = b.step("insert into the long-named table", false, |p| p.insert_rows(msi::Insert::into(name.clone()).row(vec![msi::Value::Int(1)])));
            expect(rep, "table-name", "use", &format!("{} characters", len), r, Some(Outcome::Ok));
        }
    }
    // column names: catalog widths 64 (_Columns) and 32 (_Validation)
    for (i, (len, want)) in [(31usize, Some(Outcome::Ok)), (32, Some(Outcome::Ok)), (33, Some(Outcome::Err)), (64, Some(Outcome::Err)), (65, Some(Outcome::Err))].iter().enumerate() {
        let cname: String = std::iter::once('C').chain(std::iter::repeat('n').take(len - 1)).collect();
        let tname = format!("ColName{}", i);
        let r = b.step(&format!("create_table with a {}-character column name", len), false, |p| {
            p.create_table(tname.clone(), vec![msi::Column::build("K").primary_key().int16(), msi::Column::build(cname.clone()).nullable().int16()])
        });
        if !expect(rep, "column-name", "create", &format!("{} characters", len), r, *want) {
            b = Bench::new();
        }
    }
}

/// Index (for `capacity_for`) of the scenario a witness names.
pub fn which_of(limit: Option<&str>, mode: Option<&str>) -> usize {
    match (limit, mode) {
        (Some("rows-65536"), _) => 0,
        (Some("catalog-rows-65536"), Some("validation-rows")) => 7,
        (Some("catalog-rows-65536"), _) => 5,
        (_, Some("one-batch")) => 1,
        (_, Some("create-table-at-limit")) => 2,
        (_, Some("shared-strings-over-sessions")) => 3,
        (_, Some("existing-string-after-a-freed-entry")) => 6,
        (_, Some("drop-table-frees-capacity")) => 8,
        _ => 4,
    }
}

/// The limit scenarios reported under another property: C04 ("a refused call changes nothing") and
/// C08 ("every saved file is well-formed with exact string accounting") reuse them.
pub fn capacity_for(prop: &'static str, which: usize, rep: &mut Report) {
    PROP.with(|p| p.set(prop));
    match which {
        0 => row_limit(rep, "one-batch"),
        1 => pool_limit(rep, "one-batch"),
        2 => pool_limit(rep, "create-table-at-limit"),
        3 => pool_limit(rep, "shared-strings-over-sessions"),
        6 => pool_limit(rep, "existing-string-after-a-freed-entry"),
        8 => pool_limit(rep, "drop-table-frees-capacity"),
        4 => pool_limit(rep, "reference-count-overflow-at-full-pool"),
        7 => validation_row_limit(rep),
        _ => catalog_row_limit(rep),
    }
    PROP.with(|p| p.set("C20"));
    rep.count("capacity_scenarios");
}

pub fn run(ctx: &Ctx) -> Report {
    let thorough = !ctx.quick();
    let replay_only: Option<(String, String)> = ctx.replay.as_ref().map(|w| (w["limit"].as_str().unwrap_or("").to_string(), w["mode"].as_str().unwrap_or("").to_string()));
    let mut jobs: Vec<(&str, &str)> = vec![("columns-32", "one-call"), ("names", "all"), ("rows-65536", "one-batch"), ("rows-65536", "incremental-with-reopen"), ("rows-65536", "after-deletions")];
    // the string-pool limit costs ~2*10^9 string comparisons per fill (linear incref)
    jobs.push(("pool-65535", "one-batch"));
    let _ = thorough;
    jobs.push(("pool-65535", "incremental-with-reopen"));
    jobs.push(("pool-65535", "after-deletions"));
    jobs.push(("pool-65535", "create-table-at-limit"));
    jobs.push(("pool-65535", "shared-strings-over-sessions"));
    jobs.push(("pool-65535", "existing-string-after-a-freed-entry"));
    jobs.push(("pool-65535", "drop-table-frees-capacity"));
    jobs.push(("pool-65535", "reference-count-overflow-at-full-pool"));
    jobs.push(("catalog-rows-65536", "create-table"));
    jobs.push(("catalog-rows-65536", "validation-rows"));
    jobs.push(("string-length-65535", "cells"));
    if let Some((l, m)) = &replay_only {
        jobs.retain(|(jl, jm)| (jl == l || (*jl == "names" && (l == "name-31-units" || l == "table-name" || l == "column-name"))) && (jm == m || *jl == "names" || *jl == "columns-32"));
    }
    let jobs_ref = &jobs;
    let mut rep = parallel(ctx.threads.min(jobs.len().max(1)), |shard, n| {
        let mut rep = Report::new();
        for (k, (limit, mode)) in jobs_ref.iter().enumerate() {
            if k % n != shard {
                continue;
            }
            match *limit {
                "columns-32" => columns_limit(&mut rep),
                "names" => name_limits(&mut rep),
                "rows-65536" => row_limit(&mut rep, mode),
                "string-length-65535" => string_length_boundary(&mut rep),
                "catalog-rows-65536" if *mode == "validation-rows" => validation_row_limit(&mut rep),
                "catalog-rows-65536" => catalog_row_limit(&mut rep),
                _ => pool_limit(&mut rep, mode),
            }
            rep.count("limit_scenarios");
        }
        rep
    });
    rep.sample(json!({"limit": "rows-65536", "mode": "one-batch", "steps": ["insert 65,535 rows", "insert 1 (-> 65,536: Ok, reopens)", "insert 1 (-> 65,537: Err, unchanged)", "fresh table: batch of 65,537 (Err), batch of 65,536 (Ok)"]}));
    rep.sample(json!({"limit": "pool-65535", "mode": "one-batch", "steps": ["distinct strings until the pool holds 65,534 entries", "+1 (65,535: Ok)", "+1 (needs a 65,536th entry: Err, never a panic)"]}));
    rep.sample(json!({"limit": "name-31-units", "names": ["'p' x 62 (31 stored units: Ok)", "'p' x 63 (32 units: Err)", "'é' x 31 (Ok)", "'é' x 32 (Err)"]}));
    rep
}
