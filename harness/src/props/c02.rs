//! C02 — independently encoded MSI databases are read exactly; changes made
//! through the API preserve untouched content and the result is again
//! decodable by the independent decoder to the expected state.

use crate::absgen::{encode_absdb, expected_obs, gen_absdb, AbsCfg, AbsDb};
use crate::engine::{Monitors, Session};
use crate::fmt_codec;
use crate::gen::{Gen, GenCfg};
use crate::model::{is_catalog, Op};
use crate::prng::{fnv, Rng};
use crate::report::{parallel, Report};
use crate::types::{row_json, V};
use crate::Ctx;
use serde_json::json;

pub const FORCED: [&str; 14] = [
    "long-refs",
    "holes",
    "duplicates",
    "overcount",
    "big-pool-string",
    "codepage0",
    "int-size-1",
    "no-validation",
    "unsorted-rows",
    "32-columns",
    "propset-shuffled",
    "propset-gaps",
    "big-cell-string",
    "plain",
];

struct Fail {
    clause: String,
    what: String,
}

fn sorted_norm(rows: &[Vec<V>]) -> Vec<Vec<V>> {
    let mut r: Vec<Vec<V>> = rows.iter().map(|x| x.iter().map(|v| v.norm()).collect()).collect();
    r.sort();
    r
}

/// The model-vs-observation difference (used when a call failed and must not have changed anything).
fn obs_after_changes_diff(s: &Session, o: &crate::observe::Obs) -> Option<String> {
    for (n, t) in &s.model.tables {
        match o.tables.get(n) {
            None => return Some(format!("table {:?} is gone", n)),
            Some(ot) => {
                if sorted_norm(&ot.rows) != sorted_norm(&t.rows) {
                    return Some(format!("rows of table {:?} changed", n));
                }
            }
        }
    }
    None
}

fn run_case(rep: &mut Report, seed: u64, case: u64, force: Option<&'static str>, thorough: bool) {
    let mut rng = Rng::derive(seed, 2, case);
    let cfg = AbsCfg { max_tables: if thorough { 6 } else { 4 }, max_cols: if thorough { 12 } else { 6 }, max_rows: if thorough { 40 } else { 16 } };
    let db = gen_absdb(&mut rng, case, &cfg, if force == Some("plain") { None } else { force });
    let witness = json!({"kind": "case", "seed": seed, "case": case, "force": force, "thorough": thorough, "database": db.to_json()});
    match check(rep, &db, &mut rng, case) {
        Ok(()) => {}
        Err(f) => rep.violation(format!("C02/{}", f.clause), f.what, witness),
    }
    for t in &db.option_tags {
        rep.count(&format!("option:{}", t));
    }
    let mut tags = db.option_tags.clone();
    tags.sort();
    rep.case(Some(fnv(format!("{:?}:{}:{}", tags, db.tables.len(), db.tables.iter().map(|t| t.rows.len().min(3)).sum::<usize>()).as_bytes())));
}

fn check(rep: &mut Report, db: &AbsDb, rng: &mut Rng, case: u64) -> Result<(), Fail> {
    let bytes = match encode_absdb(db) {
        Ok(b) => b,
        Err(e) => {
            rep.inconclusive.push(format!("encoder failed: {}", e));
            return Ok(());
        }
    };
    // self-check of the codec pair: decode(encode(db)) == db
    let raw = fmt_codec::decode(&bytes).map_err(|e| Fail { clause: "harness-codec".into(), what: e })?;
    if let Some(p) = raw.problems.first() {
        rep.inconclusive.push(format!("harness codec self-check: decoder reports {} on encoder output", p));
        return Ok(());
    }
    for t in &db.tables {
        if raw.table_values(&t.name).map(|r| sorted_norm(&r)) != Some(sorted_norm(&t.rows)) {
            rep.inconclusive.push(format!("harness codec self-check: table {} does not decode to what was encoded", t.name));
            return Ok(());
        }
    }
    let expected = expected_obs(&raw);
    // ---- leg 1: opening reports exactly the encoded database
    let mut s = Session::open(bytes.clone()).map_err(|f| Fail { clause: format!("open/{}", f.clause), what: format!("opening an independently encoded database: {}", f.what) })?;
    rep.count("databases_opened");
    let obs = s.last.clone().unwrap();
    if let Some(d) = expected.diff(&obs) {
        return Err(Fail { clause: format!("read/{}", crate::engine::diff_class(&d)), what: format!("expected (independent decoder) vs library: {}", d) });
    }
    // rows in file order, exactly
    for (n, t) in &expected.tables {
        let got = &obs.tables[n];
        if t.rows.len() == got.rows.len() && sorted_norm(&t.rows) == sorted_norm(&got.rows) {
            let a: Vec<Vec<V>> = t.rows.iter().map(|r| r.iter().map(|v| v.norm()).collect()).collect();
            let b: Vec<Vec<V>> = got.rows.iter().map(|r| r.iter().map(|v| v.norm()).collect()).collect();
            if a != b {
                return Err(Fail { clause: "read/row-order".into(), what: format!("table {:?}: rows are not reported in file order", n) });
            }
        }
    }
    // ---- leg 2: changes through the API preserve untouched content
    let user: Vec<String> = s.model.tables.keys().filter(|n| !is_catalog(n)).cloned().collect();
    let mut g = Gen::new(Rng::derive(case, 22, 1), GenCfg { ddl_pct: 0, invalid_pct: 0, codepages: false, max_tables: 0, huge_strings: false, ..Default::default() }, case + 500_000);
    let mon = Monitors::default();
    let mut touched: Option<String> = None;
    let mut n_changes = 0;
    if !user.is_empty() {
        let t = rng.pick(&user).clone();
        touched = Some(t.clone());
        // the generator only sees the chosen table, so all row operations go there
        let mut view = s.model.clone();
        view.tables.retain(|n, _| *n == t);
        for _ in 0..(2 + rng.usize(5)) {
            view.streams = s.model.streams.clone();
            view.summary = s.model.summary.clone();
            view.tables.insert(t.clone(), s.model.tables[&t].clone());
            let op = g.op(&view);
            if matches!(op, Op::CreateTable { .. } | Op::DropTable { .. } | Op::SetDbCodepage(_)) {
                continue;
            }
            if let Op::Summary(crate::model::SumOp::SetCodepage(_)) = op {
                continue;
            }
            s.apply(&op, &mon, rep).map_err(|f| Fail { clause: format!("modify/{}", f.clause), what: f.what })?;
            n_changes += 1;
        }
    } else {
        s.apply(&Op::WriteStream { name: "Added.stream".into(), data: vec![1, 2, 3, 4, 5] }, &mon, rep)
            .map_err(|f| Fail { clause: format!("modify/{}", f.clause), what: f.what })?;
        n_changes += 1;
    }
    // table creation and removal on a file the library did not write
    let mut dropped: Option<String> = None;
    let mut added: Option<String> = None;
    if case % 3 == 0 {
        let cols = vec![crate::types::ColDef::new("Id", crate::types::CT::Int16).key(), crate::types::ColDef::new("Txt", crate::types::CT::Str(40)).nullable()];
        let name = format!("Added{}", case % 1000);
        s.apply(&Op::CreateTable { name: name.clone(), cols }, &mon, rep).map_err(|f| Fail { clause: format!("modify/{}", f.clause), what: f.what })?;
        if !s.model.tables.contains_key(&name) {
            return Err(Fail { clause: "modify/create-table-refused".into(), what: format!("create_table({:?}) was refused on an independently encoded database", name) });
        }
        s.apply(&Op::Insert { table: name.clone(), rows: vec![vec![V::Int(1), V::s("t0x1 added")], vec![V::Int(2), V::Null]] }, &mon, rep)
            .map_err(|f| Fail { clause: format!("modify/{}", f.clause), what: f.what })?;
        added = Some(name);
        n_changes += 2;
    }
    if case % 3 == 1 {
        if let Some(victim) = user.iter().find(|u| Some(*u) != touched.as_ref()) {
            s.apply(&Op::DropTable { name: victim.clone() }, &mon, rep).map_err(|f| Fail { clause: format!("modify/{}", f.clause), what: f.what })?;
            if s.model.tables.contains_key(victim) {
                // the library refused to drop an existing table: then nothing may have changed
                let o = s.observe().map_err(|f| Fail { clause: format!("modify/{}", f.clause), what: f.what })?;
                if let Some(d) = obs_after_changes_diff(&s, &o) {
                    return Err(Fail { clause: "modify/drop-table-failed-and-changed".into(), what: format!("drop_table({:?}) returned an error on an independently encoded database and changed it: {}", victim, d) });
                }
                return Err(Fail { clause: "modify/drop-table-refused".into(), what: format!("drop_table({:?}) was refused on an independently encoded database", victim) });
            }
            dropped = Some(victim.clone());
            n_changes += 1;
        }
    }
    let mut catalog_changed = false;
    // a file without a _Validation table: the user creates one (with the standard columns, or with some other shape)
    if case % 3 == 2 && !raw.tables.contains_key("_Validation") {
        let before = s.observe().map_err(|f| Fail { clause: format!("modify/{}", f.clause), what: f.what })?;
        // the standard ten columns, a prefix of them (2..9), or one column too many
        let n_cols = [10usize, 2, 3, 5, 9, 11, 10, 7][(case / 3 % 8) as usize];
        let cols: Vec<msi::Column> = {
            let mut v = vec![
                msi::Column::build("Table").primary_key().id_string(32),
                msi::Column::build("Column").primary_key().id_string(32),
                msi::Column::build("Nullable").enum_values(&["Y", "N"]).string(4),
                msi::Column::build("MinValue").nullable().int32(),
                msi::Column::build("MaxValue").nullable().int32(),
                msi::Column::build("KeyTable").nullable().id_string(255),
                msi::Column::build("KeyColumn").nullable().range(1, 32).int16(),
                msi::Column::build("Category").nullable().string(32),
                msi::Column::build("Set").nullable().text_string(255),
                msi::Column::build("Description").nullable().text_string(255),
                msi::Column::build("Extra").nullable().int16(),
            ];
            v.truncate(n_cols);
            v
        };
        let pkg = s.pkg.as_mut().unwrap();
        match crate::panicmon::guarded(|| pkg.create_table("_Validation", cols)) {
            Err(p) => return Err(Fail { clause: format!("panic/{}", p.signature()), what: format!("create_table(\"_Validation\") panicked: {}", p.message) }),
            Ok(Err(_)) => {
                let after = s.observe().map_err(|f| Fail { clause: format!("modify/{}", f.clause), what: f.what })?;
                if let Some(d) = before.diff(&after) {
                    return Err(Fail { clause: "modify/create-_Validation-failed-and-changed".into(), what: format!("create_table(\"_Validation\", {} columns) on a file without that table returned an error and changed the package: {}", n_cols, d) });
                }
                rep.count("create_validation_refused_cleanly");
            }
            Ok(Ok(())) => {
                // accepted: the catalog legitimately changed
                catalog_changed = true;
                rep.count("create_validation_accepted");
            }
        }
    }
    rep.add("api_changes", n_changes);
    // close, then decode the saved bytes independently
    let pkg = s.pkg.take().unwrap();
    match crate::panicmon::guarded(move || pkg.into_inner().map(|_| ())) {
        Ok(Ok(())) => {}
        Ok(Err(e)) => return Err(Fail { clause: "save-error".into(), what: format!("into_inner failed: {}", e) }),
        Err(p) => return Err(Fail { clause: format!("panic/{}", p.signature()), what: format!("into_inner panicked: {}", p.message) }),
    }
    let saved = s.med.live();
    let raw2 = fmt_codec::decode(&saved).map_err(|e| Fail { clause: "saved/container".into(), what: e })?;
    rep.count("saved_images_decoded");
    if let Some(p) = raw2.problems.first() {
        return Err(Fail { clause: "saved/malformed".into(), what: format!("independent decoder on the saved file: {}", p) });
    }
    if let Some(a) = &added {
        let want = sorted_norm(&s.model.tables[a].rows);
        if raw2.table_values(a).map(|r| sorted_norm(&r)) != Some(want) {
            return Err(Fail { clause: "saved/added-table".into(), what: format!("table {:?} created through the API does not decode to its rows in the saved file", a) });
        }
        rep.count("tables_added_to_foreign_files");
    }
    if let Some(dn) = &dropped {
        if raw2.tables.contains_key(dn) || raw2.table_streams.contains_key(dn) {
            return Err(Fail { clause: "saved/dropped-table-still-there".into(), what: format!("dropped table {:?} is still in the saved file", dn) });
        }
        rep.count("tables_dropped_from_foreign_files");
    }
    for (n, t) in &raw.tables {
        if Some(n) == dropped.as_ref() {
            continue;
        }
        if is_catalog(n) {
            if added.is_some() || dropped.is_some() || catalog_changed {
                continue; // catalog rows legitimately changed; the per-table comparisons below cover the rest
            }
            if raw.table_values(n).map(|r| sorted_norm(&r)) != raw2.table_values(n).map(|r| sorted_norm(&r)) {
                return Err(Fail { clause: "saved/catalog-changed".into(), what: format!("catalog table {:?} changed although no table was created or dropped", n) });
            }
            continue;
        }
        let after = raw2.table_values(n).ok_or_else(|| Fail { clause: "saved/table-lost".into(), what: format!("table {:?} is missing from the saved file", n) })?;
        if Some(n) == touched.as_ref() {
            let want = &s.model.tables[n].rows;
            if sorted_norm(&after) != sorted_norm(want) {
                let (a, b) = (sorted_norm(&after), sorted_norm(want));
                let first = a.iter().zip(b.iter()).find(|(x, y)| x != y);
                return Err(Fail {
                    clause: "saved/touched-table".into(),
                    what: format!(
                        "touched table {:?}: saved file has {} rows, model {}; first difference {:?}",
                        n,
                        a.len(),
                        b.len(),
                        first.map(|(x, y)| format!("{} vs {}", row_json(x), row_json(y)))
                    ),
                });
            }
        } else {
            let before = raw.table_values(n).unwrap_or_default();
            let _ = t;
            if before.iter().map(|r| r.iter().map(|v| v.norm()).collect::<Vec<_>>()).collect::<Vec<_>>()
                != after.iter().map(|r| r.iter().map(|v| v.norm()).collect::<Vec<_>>()).collect::<Vec<_>>()
            {
                return Err(Fail { clause: "saved/untouched-table".into(), what: format!("untouched table {:?} decodes differently after the API changes", n) });
            }
        }
    }
    // streams and summary: decoder's view of the saved file == model
    let exp2 = expected_obs(&raw2);
    if exp2.streams != s.model.streams {
        return Err(Fail { clause: "saved/streams".into(), what: format!("saved streams {:?}, model {:?}", exp2.streams.keys().collect::<Vec<_>>(), s.model.streams.keys().collect::<Vec<_>>()) });
    }
    if exp2.summary != s.model.summary {
        return Err(Fail { clause: "saved/summary".into(), what: format!("saved summary {:?}, model {:?}", exp2.summary, s.model.summary) });
    }
    // properties the library does not interpret (and every typed value it cannot produce itself) survive a save
    if let (Some(a), Some(b)) = (&raw.summary_raw, &raw2.summary_raw) {
        let (pa, pb) = (crate::propset_codec::parse(a), crate::propset_codec::parse(b));
        if let Some(p) = pb.problems.first() {
            return Err(Fail { clause: "saved/summary-stream-malformed".into(), what: format!("independent parser on the saved summary stream: {}", p) });
        }
        // the code-page property is never set by this check's API changes: it must be exactly what it was
        if pa.props.get(&1).map(|x| &x.1) != pb.props.get(&1).map(|x| &x.1) {
            return Err(Fail {
                clause: "saved/summary-codepage-property".into(),
                what: format!("summary code-page property was {:?} in the file and is {:?} after unrelated API changes were saved", pa.props.get(&1).map(|x| &x.1), pb.props.get(&1).map(|x| &x.1)),
            });
        }
        for (id, (_, v)) in pa.props.iter() {
            if matches!(id, 1 | 2 | 3 | 4 | 6 | 7 | 9 | 12 | 15 | 18) {
                continue;
            }
            match pb.props.get(id) {
                Some((_, w)) if w == v => {}
                other => {
                    return Err(Fail {
                        clause: "saved/unknown-summary-property".into(),
                        what: format!("summary property {} = {:?} (not interpreted by the library) reads {:?} after the API changes were saved", id, v, other.map(|x| &x.1)),
                    })
                }
            }
        }
        rep.count("summary_streams_compared");
    }
    if exp2.ptype != expected.ptype || exp2.db_codepage != expected.db_codepage {
        return Err(Fail { clause: "saved/header".into(), what: "package type or database code page changed".into() });
    }
    // and the library reads its own result back the same way
    let re = crate::engine::reopen_observe(&saved).map_err(|e| Fail { clause: "saved/reopen-fails".into(), what: e })?;
    if let Some(d) = exp2.diff(&re) {
        return Err(Fail { clause: format!("saved/reread/{}", crate::engine::diff_class(&d)), what: format!("decoder view of the saved file vs library re-read: {}", d) });
    }
    Ok(())
}

pub fn run(ctx: &Ctx) -> Report {
    if let Some(w) = &ctx.replay {
        let mut rep = Report::new();
        let force = w["force"].as_str().and_then(|f| FORCED.iter().find(|x| **x == f).copied());
        run_case(&mut rep, w["seed"].as_u64().unwrap_or(ctx.seed), w["case"].as_u64().unwrap_or(0), force, w["thorough"].as_bool().unwrap_or(false));
        return rep;
    }
    let n = ctx.budget(15_000, 300_000);
    let seed = ctx.seed;
    let thorough = !ctx.quick();
    let mut rep = parallel(ctx.threads, |shard, nsh| {
        let mut rep = Report::new();
        // D: one scenario per encoder option (several variants each)
        let mut k = 0;
        for f in FORCED.iter() {
            for v in 0..8u64 {
                k += 1;
                if k % nsh == shard {
                    run_case(&mut rep, seed, 10_000_000 + v * 100 + k as u64, Some(f), thorough);
                    rep.count("directed_option_scenarios");
                }
            }
        }
        for case in (shard as u64..n).step_by(nsh) {
            run_case(&mut rep, seed, case, None, thorough);
        }
        rep
    });
    let mut rng = Rng::derive(seed, 2, 0);
    let db = gen_absdb(&mut rng, 0, &AbsCfg { max_tables: 4, max_cols: 6, max_rows: 16 }, None);
    rep.sample(json!({"case": 0, "database": db.to_json()}));
    let mut rng = Rng::derive(seed, 2, 1);
    let db = gen_absdb(&mut rng, 1, &AbsCfg { max_tables: 4, max_cols: 6, max_rows: 16 }, Some("long-refs"));
    rep.sample(json!({"forced_option": "long-refs", "database": db.to_json()}));
    rep.sample(json!({"oracle": "Obs(open(encode(db, opts))) == expected(decode(encode(db, opts))) and decode(save(apply(ops, open(...)))) == model; untouched tables compared as decoded cell values"}));
    rep
}
