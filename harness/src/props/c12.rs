//! C12 — joins and projections produce the documented row combinations.
//!
//! Query-tree model (nested-loop semantics, documented naming) evaluated on
//! all small table contents; every tree is executed through `select_rows`
//! under the panic supervisor.

use crate::engine::{Monitors, Session};
use crate::exprmodel::{Bin, MExpr};
use crate::model::Op;
use crate::prng::{fnv, Rng};
use crate::props::c03::{check_select, model_db};
use crate::querymodel::{eval_select, Db, JoinKind, MSelect};
use crate::report::{parallel, Report};
use crate::types::{ColDef, CT, V};
use crate::Ctx;
use serde_json::json;

/// Contents of one table: for keys 1 and 2 each: absent / null / 1 / 2.
fn content(code: usize) -> Vec<Vec<V>> {
    let mut rows = Vec::new();
    for (k, c) in [(1, code % 4), (2, code / 4)] {
        match c {
            0 => {}
            1 => rows.push(vec![V::Int(k), V::Null]),
            2 => rows.push(vec![V::Int(k), V::Int(1)]),
            _ => rows.push(vec![V::Int(k), V::Int(2)]),
        }
    }
    rows
}

fn setup(ca: usize, cb: usize) -> Option<Session> {
    let mut s = Session::create("Installer").ok()?;
    let mut scratch = Report::new();
    let mon = Monitors::default();
    let a = vec![ColDef::new("K", CT::Int16).key(), ColDef::new("V", CT::Int16).nullable()];
    let b = vec![ColDef::new("K", CT::Int16).key(), ColDef::new("R.x", CT::Int16).nullable()];
    s.apply(&Op::CreateTable { name: "A".into(), cols: a }, &mon, &mut scratch).ok()?;
    s.apply(&Op::CreateTable { name: "B".into(), cols: b }, &mon, &mut scratch).ok()?;
    if !content(ca).is_empty() {
        s.apply(&Op::Insert { table: "A".into(), rows: content(ca) }, &mon, &mut scratch).ok()?;
    }
    if !content(cb).is_empty() {
        s.apply(&Op::Insert { table: "B".into(), rows: content(cb) }, &mon, &mut scratch).ok()?;
    }
    Some(s)
}

fn col(n: &str) -> MExpr {
    MExpr::Col(n.to_string())
}
fn lit(i: i32) -> MExpr {
    MExpr::Lit(V::Int(i))
}
fn bin(o: Bin, a: MExpr, b: MExpr) -> MExpr {
    MExpr::Bin(o, Box::new(a), Box::new(b))
}

fn leaves() -> Vec<MSelect> {
    vec![
        MSelect::table("A"),
        MSelect::table("B"),
        MSelect::table("A").with(bin(Bin::Eq, col("V"), lit(1))),
        MSelect::table("A").columns(&["V", "K"]),
        MSelect::table("B").with(bin(Bin::Ne, col("R.x"), MExpr::Lit(V::Null))).columns(&["R.x"]),
        // every column, in table order: still a projection (its result is anonymous)
        MSelect::table("A").columns(&["K", "V"]),
    ]
}

/// Join conditions over the joined relation's columns (names from the model).
fn conditions(db: &Db, l: &MSelect, r: &MSelect) -> Vec<MExpr> {
    let probe = MSelect::join(JoinKind::Inner, l.clone(), r.clone(), lit(1));
    let cols = match eval_select(db, &probe) {
        Ok(rel) => rel.cols,
        Err(_) => return vec![lit(1)],
    };
    let nl = match eval_select(db, l) {
        Ok(rel) => rel.cols.len(),
        Err(_) => 1,
    };
    let first_l = cols[0].clone();
    let last_l = cols[nl - 1].clone();
    let first_r = cols[nl].clone();
    let last_r = cols[cols.len() - 1].clone();
    vec![
        bin(Bin::Eq, col(&first_l), col(&first_r)),
        bin(Bin::Eq, col(&last_l), col(&last_r)),
        bin(Bin::Lt, col(&first_l), col(&first_r)),
        bin(Bin::Eq, col(&last_l), col(&first_r)),
        lit(1),
        lit(0),
        MExpr::Lit(V::Null),
        MExpr::Or(Box::new(bin(Bin::Eq, col(&last_r), lit(2))), Box::new(bin(Bin::Gt, col(&first_l), lit(1)))),
        bin(Bin::Eq, col("NoSuch.Column"), col(&first_r)),
        bin(Bin::Eq, col(&first_l), col("K_unknown")),
        // conditions that are not comparisons: any non-zero, non-empty value counts as true
        bin(Bin::BitAnd, col(&last_l), col(&last_r)),
        bin(Bin::Add, col(&first_l), col(&last_r)),
        col(&last_r),
        MExpr::Un(crate::exprmodel::Un::Neg, Box::new(col(&first_l))),
        // an unknown name below a unary operator
        MExpr::Un(crate::exprmodel::Un::Not, Box::new(bin(Bin::Eq, col("NoSuch.Column"), col(&first_r)))),
        bin(Bin::Eq, MExpr::Un(crate::exprmodel::Un::Neg, Box::new(col("K_unknown"))), col(&first_l)),
        MExpr::Un(crate::exprmodel::Un::BitNot, Box::new(col("Nope"))),
        // names are case-sensitive: a spelling that differs only in letter case names no column
        bin(Bin::Eq, col(&swapcase(&first_l)), col(&first_r)),
        bin(Bin::Eq, col(&first_l), col(&swapcase(&last_r))),
    ]
}



fn swapcase(s: &str) -> String {
    s.chars().map(|c| if c.is_ascii_lowercase() { c.to_ascii_uppercase() } else { c.to_ascii_lowercase() }).collect()
}

fn with_tops(db: &Db, j: MSelect, out: &mut Vec<MSelect>) {
    out.push(j.clone());
    if let Ok(rel) = eval_select(db, &j) {
        let n = rel.cols.len();
        if n >= 2 {
            let c0 = rel.cols[0].as_str();
            let c1 = rel.cols[n - 1].as_str();
            out.push(j.clone().with(bin(Bin::Eq, col(c1), lit(1))));
            out.push(j.clone().columns(&[c1, c0]));
            out.push(j.clone().columns(&[c0]).with(bin(Bin::Ge, col(c1), col(c0))));
        }
    }
    if let Ok(rel) = eval_select(db, &j) {
        let c0 = swapcase(&rel.cols[0]);
        out.push(j.clone().with(bin(Bin::Eq, col(&c0), lit(1))));
        out.push(j.clone().columns(&[c0.as_str()]));
    }
    out.push(j.clone().with(MExpr::Un(crate::exprmodel::Un::Not, Box::new(col("Unknown.Col")))));
    out.push(j.clone().with(MExpr::Un(crate::exprmodel::Un::Neg, Box::new(bin(Bin::Add, col("Unknown.Col"), lit(1))))));
    out.push(j.clone().columns(&["Unknown.Col"]));
    out.push(j.with(bin(Bin::Eq, col("Unknown.Col"), lit(1))));
}

/// Every tree of depth <= 2 (depth-2 trees by stride).
fn trees(db: &Db, stride2: usize) -> Vec<MSelect> {
    let mut out = Vec::new();
    let lv = leaves();
    for l in &lv {
        out.push(l.clone());
    }
    out.push(MSelect::table("NoSuchTable"));
    out.push(MSelect::table("A").columns(&["Nope"]));
    let mut depth1: Vec<MSelect> = Vec::new();
    for kind in [JoinKind::Inner, JoinKind::Left] {
        for l in &lv {
            for r in &lv {
                for c in conditions(db, l, r) {
                    depth1.push(MSelect::join(kind, l.clone(), r.clone(), c));
                }
            }
        }
    }
    for j in &depth1 {
        with_tops(db, j.clone(), &mut out);
    }
    // joins with an unknown table on either side
    out.push(MSelect::join(JoinKind::Inner, MSelect::table("A"), MSelect::table("Nope"), lit(1)));
    out.push(MSelect::join(JoinKind::Left, MSelect::table("Nope"), MSelect::table("B"), lit(1)));
    // depth 2: a depth-1 join (or its filtered / projected form) as an operand
    let mut k = 0usize;
    for j in depth1.iter() {
        for leaf in &lv {
            for kind in [JoinKind::Inner, JoinKind::Left] {
                for side in 0..2 {
                    k += 1;
                    if k % stride2 != 0 {
                        continue;
                    }
                    let (l, r) = if side == 0 { (j.clone(), leaf.clone()) } else { (leaf.clone(), j.clone()) };
                    let conds = conditions(db, &l, &r);
                    let c = conds[k / stride2 % conds.len()].clone();
                    with_tops(db, MSelect::join(kind, l, r, c), &mut out);
                }
            }
        }
    }
    out
}

fn run_pair(rep: &mut Report, ca: usize, cb: usize, stride2: usize, only: Option<usize>) {
    let mut s = match setup(ca, cb) {
        Some(s) => s,
        None => {
            rep.inconclusive.push(format!("could not set up contents ({}, {})", ca, cb));
            return;
        }
    };
    let db = model_db(&s);
    let ts = trees(&db, stride2);
    for (i, q) in ts.iter().enumerate() {
        if let Some(o) = only {
            if o != i {
                continue;
            }
        }
        let nontrivial = eval_select(&db, q).map(|r| !r.rows.is_empty()).unwrap_or(true);
        rep.case(if nontrivial { Some(fnv(format!("{}:{}:{}", q.show(), ca, cb).as_bytes())) } else { None });
        rep.count(&format!("trees_depth_{}", q.depth()));
        if let Err(f) = check_select(&mut s, q, rep) {
            let w = json!({"kind": "pair", "a": ca, "b": cb, "tree_index": i, "stride2": stride2, "tree": q.show(), "contents_A": content(ca).iter().map(|r| crate::types::row_json(r)).collect::<Vec<_>>(), "contents_B": content(cb).iter().map(|r| crate::types::row_json(r)).collect::<Vec<_>>()});
            // signature: clause + the shape of the culprit (join kind / where the unknown name sits)
            let shape = if q.show().contains("NoSuch.Column") || q.show().contains("K_unknown") {
                "unknown-column-in-join-condition"
            } else if q.show().contains("Unknown.Col") {
                "unknown-column-at-top"
            } else {
                "tree"
            };
            rep.violation(format!("C12/{}/{}", f.clause, shape), f.what, w);
            if s.pkg.is_none() {
                match setup(ca, cb) {
                    Some(n) => s = n,
                    None => return,
                }
            }
        }
    }
}

/// Random deeper trees (depth 3) on random contents.
fn run_random(rep: &mut Report, seed: u64, case: u64) {
    let mut rng = Rng::derive(seed, 12, case);
    let (ca, cb) = (rng.usize(16), rng.usize(16));
    let mut s = match setup(ca, cb) {
        Some(s) => s,
        None => return,
    };
    let db = model_db(&s);
    let lv = leaves();
    let mut cur = rng.pick(&lv).clone();
    for _ in 0..3 {
        let other = rng.pick(&lv).clone();
        let (l, r) = if rng.chance(1, 2) { (cur.clone(), other) } else { (other, cur.clone()) };
        let conds = conditions(&db, &l, &r);
        let c = conds[rng.usize(conds.len().saturating_sub(7).max(1))].clone();
        cur = MSelect::join(if rng.chance(1, 2) { JoinKind::Inner } else { JoinKind::Left }, l, r, c);
    }
    rep.case(Some(fnv(format!("rnd:{}:{}:{}", cur.show(), ca, cb).as_bytes())));
    rep.count("trees_depth_3");
    if let Err(f) = check_select(&mut s, &cur, rep) {
        rep.violation(format!("C12/{}/depth3", f.clause), f.what, json!({"kind": "random", "seed": seed, "case": case, "tree": cur.show()}));
    }
}

pub fn run(ctx: &Ctx) -> Report {
    if let Some(w) = &ctx.replay {
        let mut rep = Report::new();
        match w["kind"].as_str() {
            Some("pair") => run_pair(
                &mut rep,
                w["a"].as_u64().unwrap_or(0) as usize,
                w["b"].as_u64().unwrap_or(0) as usize,
                w["stride2"].as_u64().unwrap_or(1) as usize,
                w["tree_index"].as_u64().map(|x| x as usize),
            ),
            Some("random") => run_random(&mut rep, w["seed"].as_u64().unwrap_or(ctx.seed), w["case"].as_u64().unwrap_or(0)),
            _ => rep.inconclusive.push("unknown replay kind".into()),
        }
        return rep;
    }
    let quick = ctx.quick();
    let stride2 = if quick { 101 } else { 7 };
    let n_random = ctx.budget(4_000, 100_000);
    let seed = ctx.seed;
    let mut rep = parallel(ctx.threads, |shard, n| {
        let mut rep = Report::new();
        let mut k = 0usize;
        for ca in 0..16usize {
            for cb in 0..16usize {
                k += 1;
                if k % n != shard {
                    continue;
                }
                // quick: 64 content pairs (every table content appears on both sides); thorough: all 256
                if quick && (ca + 3 * cb) % 4 != 0 {
                    continue;
                }
                run_pair(&mut rep, ca, cb, stride2, None);
                rep.count("content_pairs");
            }
        }
        for case in (shard as u64..n_random).step_by(n) {
            run_random(&mut rep, seed, case);
        }
        rep
    });
    if !quick {
        rep.exhaustive_parts.push("all 256 content pairs of A(K,V) x B(K,R) with keys in {1,2}, values in {absent, null, 1, 2}; every tree of depth <= 1 over 5 leaf forms x 10 join conditions x 2 join kinds x 6 top forms".into());
    } else {
        rep.exhaustive_parts.push("every tree of depth <= 1 over 5 leaf forms x 10 join conditions x 2 join kinds x 6 top forms, on 64 content pairs".into());
    }
    rep.sample(json!({"tree": MSelect::join(JoinKind::Left, MSelect::table("A"), MSelect::table("B"), bin(Bin::Eq, col("A.V"), col("B.R"))).show(), "contents_A": content(6).iter().map(|r| crate::types::row_json(r)).collect::<Vec<_>>(), "contents_B": content(9).iter().map(|r| crate::types::row_json(r)).collect::<Vec<_>>()}));
    rep.sample(json!({"tree": MSelect::join(JoinKind::Inner, MSelect::table("A"), MSelect::table("A").columns(&["V", "K"]), bin(Bin::Eq, col("NoSuch.Column"), col("V"))).show(), "expect": "Err, never a panic"}));
    rep
}
