//! C14 — code pages: lossless where representable, and matching their names.
//!
//! Differential monitor against the encoding_rs oracle (`cpora`) plus the
//! algebraic laws, exhaustively over all scalars x all 26 pages.

use crate::cpora;
use crate::panicmon::guarded;
use crate::prng::{fnv, Rng};
use crate::report::{parallel, Report};
use crate::Ctx;
use serde_json::json;

fn page(id: i32) -> msi::CodePage {
    msi::CodePage::from_id(id).expect("page id from the oracle table is supported by the library")
}

fn hex(b: &[u8]) -> String {
    b.iter().map(|x| format!("{:02X}", x)).collect::<Vec<_>>().join(" ")
}

/// Per-scalar laws for one page over a range of scalars.
fn scalar_laws(rep: &mut Report, id: i32, lo: u32, hi: u32) {
    let p = page(id);
    let mut buf = String::with_capacity(4);
    let (mut n_replaced, mut n_roundtrip) = (0u64, 0u64);
    for u in lo..hi {
        let c = match char::from_u32(u) {
            Some(c) => c,
            None => continue,
        };
        buf.clear();
        buf.push(c);
        let enc = p.encode(&buf);
        let oracle = cpora::encode_char(id, c);
        let class;
        // law 1: round trip or the single replacement byte
        if enc == b"?" && c != '?' {
            class = 0u8;
            n_replaced += 1;
        } else {
            let dec = p.decode(&enc);
            if dec == buf {
                class = enc.len() as u8;
                n_roundtrip += 1;
            } else {
                class = 9;
                rep.violation(
                    format!("C14/roundtrip/cp{}/U+{:04X}", id, u),
                    format!(
                        "code page {}: U+{:04X} encodes to [{}], which is neither '?' nor bytes that decode back to it (decodes to {:?})",
                        id, u, hex(&enc), dec
                    ),
                    json!({"kind": "scalar", "page": id, "scalar": u}),
                );
            }
        }
        // law 2: behaves as the code page its id names (oracle bytes)
        let want: Vec<u8> = match &oracle {
            Some(b) => b.clone(),
            None => b"?".to_vec(),
        };
        if enc != want {
            rep.violation(
                format!("C14/table/cp{}", id),
                format!(
                    "code page {} ({}): U+{:04X} encodes to [{}] but the {} table gives [{}]",
                    id,
                    cpora::label(id).unwrap_or("?"),
                    u,
                    hex(&enc),
                    cpora::label(id).unwrap_or("?"),
                    hex(&want)
                ),
                json!({"kind": "scalar", "page": id, "scalar": u}),
            );
        }
        rep.case(Some(fnv(&[(id & 0xff) as u8, (id >> 8) as u8, class, (u >> 8) as u8, (u >> 16) as u8])));
    }
    rep.add("scalars_replaced", n_replaced);
    rep.add("scalars_roundtrip", n_roundtrip);
}

/// decode accepts any bytes and agrees with the named table.
fn decode_laws(rep: &mut Report, id: i32, first_lo: u32, first_hi: u32) {
    let p = page(id);
    for a in first_lo..first_hi {
        let one = [a as u8];
        let d = p.decode(&one);
        let want = cpora::decode(id, &one);
        if d != want {
            rep.violation(
                format!("C14/decode/cp{}", id),
                format!("code page {}: decode([{}]) = {:?}, table says {:?}", id, hex(&one), d, want),
                json!({"kind": "decode", "page": id, "bytes": one}),
            );
        }
        rep.case(Some(fnv(&[1, (id & 0xff) as u8, (id >> 8) as u8, a as u8, (d.len() as u8)])));
        for b in 0..=255u8 {
            let two = [a as u8, b];
            let d = p.decode(&two);
            let want = cpora::decode(id, &two);
            if d != want {
                rep.violation(
                    format!("C14/decode/cp{}", id),
                    format!("code page {}: decode([{}]) = {:?}, table says {:?}", id, hex(&two), d, want),
                    json!({"kind": "decode", "page": id, "bytes": two}),
                );
            }
            rep.evaluations += 1;
        }
    }
    rep.add("decode_inputs", ((first_hi - first_lo) * 257) as u64);
}

/// encode(s) == concatenation of per-character encodings, across the 1024-byte
/// internal buffer boundary.
fn concat_laws(rep: &mut Report, id: i32, rng: &mut Rng, rounds: usize) {
    let p = page(id);
    let reper = cpora::repertoire(id, 12);
    let unmappable: Vec<char> = ['\u{10FFFF}', '😀', '\u{E000}', 'Ω', '日', 'é']
        .iter()
        .cloned()
        .filter(|c| cpora::encode_char(id, *c).is_none())
        .collect();
    let mut markers: Vec<char> = Vec::new();
    markers.extend(reper.iter().take(4));
    markers.extend(unmappable.iter().take(2));
    if markers.is_empty() {
        markers.push('~');
    }
    let check = |rep: &mut Report, s: &str, what: &str| {
        let lib = p.encode(s);
        let mut want = Vec::with_capacity(lib.len());
        let mut one = String::new();
        for c in s.chars() {
            one.clear();
            one.push(c);
            want.extend(p.encode(&one));
        }
        if lib != want {
            let pos = lib.iter().zip(want.iter()).position(|(a, b)| a != b).unwrap_or(lib.len().min(want.len()));
            rep.violation(
                format!("C14/concat/cp{}", id),
                format!(
                    "code page {}: encode of a {}-char string ({}) differs from the concatenation of its characters' encodings at byte {} (lengths {} vs {})",
                    id, s.chars().count(), what, pos, lib.len(), want.len()
                ),
                json!({"kind": "concat", "page": id, "string": s}),
            );
        }
        // decoding the whole gives back the per-character decodings (none of the 26 pages is stateful, and every
        // per-character encoding is a complete sequence): a decoder that works piecewise must not cut a sequence
        let whole = p.decode(&lib);
        let mut want_dec = String::with_capacity(s.len());
        for c in s.chars() {
            one.clear();
            one.push(c);
            want_dec.push_str(&p.decode(&p.encode(&one)));
        }
        if lib == want && whole != want_dec {
            let pos = whole.chars().zip(want_dec.chars()).position(|(a, b)| a != b).unwrap_or(0);
            rep.violation(
                format!("C14/concat-decode/cp{}", id),
                format!(
                    "code page {}: decode of the {} encoded bytes of a {}-char string ({}) differs from the concatenation of its characters' decodings at char {} ({} vs {} chars)",
                    id, lib.len(), s.chars().count(), what, pos, whole.chars().count(), want_dec.chars().count()
                ),
                json!({"kind": "concat", "page": id, "string": s}),
            );
        }
        rep.count("concat_decodes");
        rep.case(Some(fnv(format!("concat{}:{}:{}", id, what, lib.len()).as_bytes())));
        rep.count("concat_strings");
    };
    // marker slid over byte positions around the chunk boundary
    for &m in &markers {
        for pad in 1000..1050usize {
            let mut s = "x".repeat(pad);
            s.push(m);
            s.push_str(&"y".repeat(40));
            check(rep, &s, &format!("marker U+{:04X} after {} ascii", m as u32, pad));
            if pad % 7 == 0 {
                // two markers, and a run of markers across the boundary
                let mut s = "x".repeat(pad);
                for _ in 0..8 {
                    s.push(m);
                }
                check(rep, &s, &format!("run of U+{:04X} after {}", m as u32, pad));
            }
        }
        // multiples of the buffer: boundaries at 1024, 2048, 3072
        for k in [2usize, 3, 4, 5, 8, 12, 16] {
            for d in 0..6usize {
                let mut s = "x".repeat(1024 * k - 3 + d);
                s.push(m);
                s.push('z');
                check(rep, &s, &format!("marker U+{:04X} near {}KiB", m as u32, k));
            }
        }
        // a run of markers across the 4 KiB / 8 KiB / 64 KiB marks (every alignment of a multi-byte sequence)
        for k in [4usize, 8, 64] {
            let mut s = "x".repeat(1024 * k - 5);
            for _ in 0..8 {
                s.push(m);
            }
            s.push('z');
            check(rep, &s, &format!("run of U+{:04X} across {}KiB", m as u32, k));
        }
    }
    // random mixtures
    for _ in 0..rounds {
        let len = rng.range(0, 2200) as usize;
        let mut s = String::new();
        for _ in 0..len {
            match rng.below(10) {
                0 if !reper.is_empty() => s.push(*rng.pick(&reper)),
                1 if !unmappable.is_empty() => s.push(*rng.pick(&unmappable)),
                _ => s.push((b'a' + rng.below(26) as u8) as char),
            }
        }
        check(rep, &s, "random mixture");
    }
    check(rep, "", "empty");
}

fn id_laws(rep: &mut Report, lo: i64, hi: i64) {
    for i in lo..hi {
        let i32v = i as i32;
        if let Some(p) = msi::CodePage::from_id(i32v) {
            rep.count("ids_known");
            if i32v != 0 && p.id() != i32v {
                rep.violation(
                    "C14/id/from_id-not-inverse-of-id".to_string(),
                    format!("from_id({}) = {:?} whose id() is {}", i32v, p, p.id()),
                    json!({"kind": "id", "id": i32v}),
                );
            }
            if msi::CodePage::from_id(p.id()) != Some(p) {
                rep.violation(
                    format!("C14/id/roundtrip({})", p.id()),
                    format!("from_id(id({:?})) != {:?}", p, p),
                    json!({"kind": "id", "id": p.id()}),
                );
            }
            rep.fingerprints.insert(fnv(format!("id{}", i32v).as_bytes()));
        }
    }
    rep.evaluations += (hi - lo) as u64;
    rep.add("ids_checked", (hi - lo) as u64);
}

fn replay(ctx: &Ctx, w: &serde_json::Value) -> Report {
    let _ = ctx;
    let mut rep = Report::new();
    let id = w["page"].as_i64().unwrap_or(65001) as i32;
    match w["kind"].as_str().unwrap_or("") {
        "scalar" => {
            let u = w["scalar"].as_u64().unwrap_or(0) as u32;
            scalar_laws(&mut rep, id, u, u + 1);
        }
        "decode" => {
            let a = w["bytes"][0].as_u64().unwrap_or(0) as u32;
            decode_laws(&mut rep, id, a, a + 1);
        }
        "concat" => {
            let mut rng = Rng::new(1);
            concat_laws(&mut rep, id, &mut rng, 0);
        }
        "id" => {
            let i = w["id"].as_i64().unwrap_or(0);
            id_laws(&mut rep, i, i + 1);
        }
        _ => rep.inconclusive.push("unknown replay kind".into()),
    }
    rep
}

pub fn run(ctx: &Ctx) -> Report {
    if let Some(w) = &ctx.replay {
        return replay(ctx, w);
    }
    let ids = cpora::all_ids();
    // work items: (page, scalar block of 0x4400) -> 26 * 64 items
    const BLOCK: u32 = 0x4400;
    let blocks = (0x110000 + BLOCK - 1) / BLOCK;
    let items: Vec<(i32, u32)> = ids.iter().flat_map(|&id| (0..blocks).map(move |b| (id, b))).collect();
    let thorough = !ctx.quick();
    let seed = ctx.seed;
    let mut rep = parallel(ctx.threads, |shard, n| {
        let mut rep = Report::new();
        for (k, &(id, b)) in items.iter().enumerate() {
            if k % n != shard {
                continue;
            }
            let r = guarded(|| {
                let mut local = Report::new();
                scalar_laws(&mut local, id, b * BLOCK, ((b + 1) * BLOCK).min(0x110000));
                local
            });
            match r {
                Ok(local) => rep.merge(local),
                Err(p) => rep.violation(
                    format!("C14/panic/{}", p.signature()),
                    format!("encode/decode panicked for page {} in scalars {:#X}..: {}", id, b * BLOCK, p.message),
                    json!({"kind": "scalar", "page": id, "scalar": b * BLOCK}),
                ),
            }
        }
        // decode: all 1- and 2-byte inputs per page, split by lead byte
        for (k, &id) in ids.iter().enumerate() {
            for lead_block in 0..16u32 {
                if (k * 16 + lead_block as usize) % n != shard {
                    continue;
                }
                let r = guarded(|| {
                    let mut local = Report::new();
                    decode_laws(&mut local, id, lead_block * 16, lead_block * 16 + 16);
                    local
                });
                match r {
                    Ok(local) => rep.merge(local),
                    Err(p) => rep.violation(
                        format!("C14/panic/{}", p.signature()),
                        format!("decode panicked for page {}: {}", id, p.message),
                        json!({"kind": "decode", "page": id, "bytes": [lead_block * 16]}),
                    ),
                }
            }
        }
        // concatenation law
        for (k, &id) in ids.iter().enumerate() {
            if k % n != shard {
                continue;
            }
            let mut rng = Rng::derive(seed, 14, id as u64);
            let rounds = if thorough { 400 } else { 40 };
            let r = guarded(|| {
                let mut local = Report::new();
                concat_laws(&mut local, id, &mut rng, rounds);
                local
            });
            match r {
                Ok(local) => rep.merge(local),
                Err(p) => rep.violation(
                    format!("C14/panic/{}", p.signature()),
                    format!("encode panicked on a long string for page {}: {}", id, p.message),
                    json!({"kind": "concat", "page": id}),
                ),
            }
        }
        // identifiers
        let (lo, hi): (i64, i64) = if thorough { (i32::MIN as i64, i32::MAX as i64 + 1) } else { (-(1 << 20), 1 << 20) };
        let span = (hi - lo) / n as i64;
        let a = lo + span * shard as i64;
        let z = if shard == n - 1 { hi } else { a + span };
        id_laws(&mut rep, a, z);
        if !thorough && shard == 0 {
            // u16 / i16 images of every known id and the extremes
            for &id in &ids {
                for img in [id as i64, (id as u16 as i16) as i64, id as i64 | 0x8000_0000u32 as i64, -(id as i64)] {
                    if img >= i32::MIN as i64 && img <= i32::MAX as i64 && !(lo..hi).contains(&img) {
                        id_laws(&mut rep, img, img + 1);
                    }
                }
            }
            id_laws(&mut rep, i32::MIN as i64, i32::MIN as i64 + 1);
            id_laws(&mut rep, i32::MAX as i64, i32::MAX as i64 + 1);
        }
        rep
    });
    rep.exhaustive_parts.push("all 1,112,064 scalars x 26 pages (per-character laws)".into());
    rep.exhaustive_parts.push("all 1- and 2-byte inputs x 26 pages (decode)".into());
    if thorough {
        rep.exhaustive_parts.push("all 2^32 identifiers".into());
    }
    rep.sample(json!({"law": "roundtrip-or-'?' and table agreement", "page": 932, "scalar": "U+65E5", "lib_bytes": hex(&page(932).encode("日")), "oracle_bytes": cpora::encode_char(932, '日').map(|b| hex(&b))}));
    rep.sample(json!({"law": "concatenation across the 1024-byte chunk boundary", "page": 936, "string": "'x' * 1023 + U+4E2D + 'y' * 40"}));
    rep.sample(json!({"law": "decode accepts any bytes / agrees with table", "page": 949, "bytes": "81 41", "lib": page(949).decode(&[0x81, 0x41])}));
    rep.sample(json!({"law": "from_id/id inverse", "id": 65001, "from_id": format!("{:?}", msi::CodePage::from_id(65001))}));
    rep
}
