//! One module per property.
use crate::report::Report;
use crate::Ctx;

pub mod c14;

pub fn run(id: &str, ctx: &Ctx) -> Option<Report> {
    Some(match id {
        "C14" => c14::run(ctx),
        _ => return None,
    })
}
