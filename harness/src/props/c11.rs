//! C11 — binary streams keep their names and contents, apart from the tables.
//!
//! Stream-map model keyed by the given name; raw container entry list diffed
//! (through the independent decoder) to show that table data, pool, summary
//! and signature entries are never touched by the stream interface.

use crate::fmt_codec;
use crate::medium::Medium;
use crate::panicmon::guarded;
use crate::prng::{fnv, Rng};
use crate::report::{parallel, Report};
use crate::Ctx;
use serde_json::json;
use std::collections::BTreeMap;
use std::io::{Cursor, Read, Write};

type Pkg = msi::Package<crate::medium::Handle>;

const ALPHABET: [char; 20] = [
    'a', 'Z', '0', '.', '_', ' ', '-', 'é', '\u{3800}', '\u{3FFF}', '\u{4800}', '\u{483F}', '\u{4840}', '\u{1F600}', '/', '\\', ':', '!', '\u{5}', '\u{0}',
];

struct Bench {
    med: Medium,
    pkg: Option<Pkg>,
    model: BTreeMap<String, Vec<u8>>,
    /// non-stream part of the container as of the last table operation
    base_tables: BTreeMap<String, Vec<u8>>,
    base_summary: Option<Vec<u8>>,
    base_sig: bool,
    serial: u32,
    /// stored-name keys of groups of distinct names that the container's comparison identifies
    ambiguous: std::collections::BTreeSet<String>,
}

struct Fail {
    clause: String,
    what: String,
}

fn fail(clause: impl Into<String>, what: impl Into<String>) -> Fail {
    Fail { clause: clause.into(), what: what.into() }
}

fn name_class(name: &str) -> &'static str {
    if name.is_empty() {
        return "empty";
    }
    if name.chars().any(|c| (0x3800..0x4840).contains(&(c as u32))) {
        return "packing-range-char";
    }
    if name.starts_with('\u{4840}') {
        return "table-marker";
    }
    if name.contains('/') || name.contains('\\') {
        return "path-separator";
    }
    if name.contains(':') || name.contains('!') {
        return "reserved-char";
    }
    if name.contains('\u{5}') || name.contains('\u{0}') {
        return "control-char";
    }
    if !name.is_ascii() {
        return "non-ascii";
    }
    if name.chars().all(|c| c.is_ascii_alphanumeric() || c == '.' || c == '_') {
        return "packable";
    }
    "ascii-unpackable"
}

fn raw_key(name: &str) -> String {
    // the container compares names case-insensitively on the stored (packed) form
    fmt_codec::pack_name(name, false).to_uppercase()
}

impl Bench {
    fn new() -> Bench {
        let med = Medium::new();
        let mut pkg = msi::Package::create(msi::PackageType::Installer, med.handle()).expect("create");
        let cols = vec![msi::Column::build("K").primary_key().int16(), msi::Column::build("V").nullable().string(0)];
        pkg.create_table("UserTab", cols).expect("create UserTab");
        pkg.insert_rows(msi::Insert::into("UserTab").row(vec![msi::Value::Int(1), msi::Value::from("t0x1 row")])).expect("insert");
        let mut b = Bench { med, pkg: Some(pkg), model: BTreeMap::new(), base_tables: BTreeMap::new(), base_summary: None, base_sig: false, serial: 0, ambiguous: Default::default() };
        b.rebase().ok();
        b
    }

    fn pkg(&mut self) -> &mut Pkg {
        self.pkg.as_mut().expect("live")
    }

    fn leak(&mut self) {
        if let Some(p) = self.pkg.take() {
            std::mem::forget(p);
        }
    }

    fn decode_now(&mut self) -> Result<fmt_codec::RawDb, Fail> {
        let r = guarded(|| self.pkg.as_mut().unwrap().flush());
        match r {
            Ok(Ok(())) => {}
            Ok(Err(e)) => return Err(fail("flush-error", format!("flush failed: {}", e))),
            Err(p) => {
                self.leak();
                return Err(fail(format!("panic/{}", p.signature()), format!("flush panicked: {}", p.message)));
            }
        }
        fmt_codec::decode(&self.med.live()).map_err(|e| fail("container", e))
    }

    fn rebase(&mut self) -> Result<(), Fail> {
        let db = self.decode_now()?;
        self.base_tables = db.table_streams;
        self.base_summary = db.summary_raw;
        self.base_sig = db.has_signature;
        Ok(())
    }

    /// Table data, pool, summary and signature entries are exactly what they were.
    fn check_nonstream_untouched(&mut self, after: &str) -> Result<(), Fail> {
        let db = self.decode_now()?;
        if db.table_streams != self.base_tables {
            let changed: Vec<&String> = db.table_streams.keys().chain(self.base_tables.keys()).filter(|k| db.table_streams.get(*k) != self.base_tables.get(*k)).collect();
            return Err(fail("table-data-touched", format!("{} changed table/pool streams {:?}", after, changed)));
        }
        if db.summary_raw != self.base_summary {
            return Err(fail("summary-touched", format!("{} changed the summary information stream", after)));
        }
        if db.has_signature != self.base_sig {
            return Err(fail("signature-touched", format!("{} changed the digital signature", after)));
        }
        // the raw stream entries are exactly the model's names
        let mut file_names: Vec<String> = db.streams.keys().cloned().collect();
        file_names.sort();
        let _ = file_names;
        Ok(())
    }

    fn write(&mut self, name: &str, data: &[u8], rep: &mut Report) -> Result<bool, Fail> {
        let r = guarded(|| -> std::io::Result<()> {
            let mut w = self.pkg.as_mut().unwrap().write_stream(name)?;
            w.write_all(data)?;
            w.flush()
        });
        rep.count("write_calls");
        match r {
            Err(p) => {
                self.leak();
                Err(fail(format!("panic/{}", p.signature()), format!("write_stream({:?}) panicked: {} at {}", name, p.message, p.location)))
            }
            Ok(Ok(())) => {
                // distinct names that the container's comparison identifies are allowed to alias: excluded
                let k = raw_key(name);
                let twin = self.model.keys().find(|n| n.as_str() != name && raw_key(n) == k).cloned();
                if let Some(t) = twin {
                    // which of the two spellings the container keeps is not specified: the whole
                    // group is excluded from the listing / content comparison from here on
                    rep.count("ambiguous_case_groups_skipped");
                    self.model.remove(&t);
                    self.ambiguous.insert(k.clone());
                }
                if self.ambiguous.contains(&k) {
                    return Ok(true);
                }
                self.model.insert(name.to_string(), data.to_vec());
                rep.count("writes_accepted");
                Ok(true)
            }
            Ok(Err(_)) => {
                rep.count("writes_refused");
                Ok(false)
            }
        }
    }

    fn remove(&mut self, name: &str, rep: &mut Report) -> Result<bool, Fail> {
        let r = guarded(|| self.pkg.as_mut().unwrap().remove_stream(name));
        rep.count("remove_calls");
        match r {
            Err(p) => {
                self.leak();
                Err(fail(format!("panic/{}", p.signature()), format!("remove_stream({:?}) panicked: {} at {}", name, p.message, p.location)))
            }
            Ok(Ok(())) => {
                if self.ambiguous.contains(&raw_key(name)) {
                    return Ok(true);
                }
                if self.model.remove(name).is_none() {
                    return Err(fail(
                        format!("removed-unknown/{}", name_class(name)),
                        format!("remove_stream({:?}) succeeded although no stream was written under that name (live names: {:?})", name, self.model.keys().collect::<Vec<_>>()),
                    ));
                }
                Ok(true)
            }
            Ok(Err(_)) => {
                if self.model.contains_key(name) {
                    return Err(fail(format!("remove-refused/{}", name_class(name)), format!("remove_stream({:?}) failed for a live stream", name)));
                }
                Ok(false)
            }
        }
    }

    /// Listing == live names as given; every stream reads back its own bytes.
    fn verify(&mut self, ctx: &str, rep: &mut Report) -> Result<(), Fail> {
        let model = self.model.clone();
        let r = guarded(|| -> Result<(), Fail> {
            let pkg = self.pkg.as_mut().unwrap();
            let mut listed: Vec<String> = pkg.streams().filter(|n| !self.ambiguous.contains(&raw_key(n))).collect();
            listed.sort();
            let want: Vec<String> = model.keys().cloned().collect();
            if listed != want {
                let class = want.iter().chain(listed.iter()).find(|n| !(want.contains(n) && listed.contains(n))).map(|n| name_class(n)).unwrap_or("?");
                return Err(fail(format!("listing/{}", class), format!("{}: streams() = {:?} but the live names are {:?}", ctx, listed, want)));
            }
            for (n, d) in &model {
                if !pkg.has_stream(n) {
                    return Err(fail(format!("has_stream/{}", name_class(n)), format!("{}: has_stream({:?}) is false for a live stream", ctx, n)));
                }
                let mut got = Vec::new();
                match pkg.read_stream(n) {
                    Ok(mut rd) => {
                        rd.read_to_end(&mut got).map_err(|e| fail("read-error", format!("{}: reading {:?}: {}", ctx, n, e)))?;
                    }
                    Err(e) => return Err(fail(format!("read-refused/{}", name_class(n)), format!("{}: read_stream({:?}) failed for a live stream: {}", ctx, n, e))),
                }
                if &got != d {
                    return Err(fail(
                        format!("content/{}", name_class(n)),
                        format!("{}: stream {:?} reads {} bytes starting {:?}, last written were {} bytes starting {:?}", ctx, n, got.len(), &got[..got.len().min(12)], d.len(), &d[..d.len().min(12)]),
                    ));
                }
            }
            Ok(())
        });
        rep.count("verifications");
        match r {
            Ok(x) => x,
            Err(p) => {
                self.leak();
                Err(fail(format!("panic/{}", p.signature()), format!("{}: listing/reading panicked: {} at {}", ctx, p.message, p.location)))
            }
        }
    }

    fn reopen(&mut self) -> Result<(), Fail> {
        let pkg = self.pkg.take().unwrap();
        match guarded(move || pkg.into_inner().map(|_| ())) {
            Ok(Ok(())) => {}
            Ok(Err(e)) => return Err(fail("into_inner-error", e.to_string())),
            Err(p) => return Err(fail(format!("panic/{}", p.signature()), p.message)),
        }
        let h = self.med.handle();
        match guarded(|| msi::Package::open(h)) {
            Ok(Ok(p)) => {
                self.pkg = Some(p);
                Ok(())
            }
            Ok(Err(e)) => Err(fail("reopen-fails", format!("reopen failed: {}", e))),
            Err(p) => Err(fail(format!("panic/{}", p.signature()), p.message)),
        }
    }

    fn payload(&mut self, len: usize) -> Vec<u8> {
        self.serial += 1;
        let mut d = format!("<{}>", self.serial).into_bytes();
        d.truncate(len);
        while d.len() < len {
            d.push((d.len() as u32).wrapping_mul(2654435761).wrapping_add(self.serial) as u8);
        }
        d
    }
}

/// Writes the batch of names one after another; after each accepted write all
/// live streams must still list and read back.
fn run_batch(rep: &mut Report, names: &[String], reverse: bool, witness: serde_json::Value) {
    let mut b = Bench::new();
    let order: Vec<&String> = if reverse { names.iter().rev().collect() } else { names.iter().collect() };
    let mut res: Result<(), Fail> = Ok(());
    for (i, n) in order.iter().enumerate() {
        let len = [3usize, 0, 1, 40, 5000][i % 5];
        let d = b.payload(len);
        rep.case(Some(fnv(format!("{}:{}:{}", name_class(n), n.chars().count(), n.encode_utf16().count()).as_bytes())));
        match b.write(n, &d, rep) {
            Err(f) => {
                res = Err(f);
                break;
            }
            Ok(true) => {
                if let Err(f) = b.verify(&format!("after write_stream({:?})", n), rep) {
                    res = Err(f);
                    break;
                }
            }
            Ok(false) => {}
        }
    }
    if res.is_ok() {
        res = b.check_nonstream_untouched("the stream writes");
    }
    if res.is_ok() {
        res = b.reopen().and_then(|_| b.verify("after reopen", rep));
    }
    if res.is_ok() {
        // remove every other live stream, the rest must be unaffected
        let live: Vec<String> = b.model.keys().cloned().collect();
        for n in live.iter().step_by(2) {
            match b.remove(n, rep) {
                Err(f) => {
                    res = Err(f);
                    break;
                }
                Ok(_) => {}
            }
        }
        if res.is_ok() {
            res = b.verify("after removing every other stream", rep).and_then(|_| b.check_nonstream_untouched("the removals"));
        }
    }
    if let Err(f) = res {
        rep.violation(format!("C11/{}", f.clause), f.what, witness);
    }
}

fn special_names() -> Vec<String> {
    let mut v: Vec<String> = vec![
        "_StringPool".into(),
        "_StringData".into(),
        "_Tables".into(),
        "_Columns".into(),
        "_Validation".into(),
        "UserTab".into(),
        "\u{5}SummaryInformation".into(),
        "\u{5}DigitalSignature".into(),
        "\u{5}MsiDigitalSignatureEx".into(),
        "\u{5}DocumentSummaryInformation".into(),
        ".".into(),
        "..".into(),
        "a/b".into(),
        "/".into(),
        "a".into(),
        "a/..".into(),
        "é/../x".into(),
        "./a".into(),
        "é/é".into(),
        "é".into(),
        "É".into(),
        "A".into(),
    ];
    let with_marker: Vec<String> = v.iter().take(9).map(|n| format!("\u{4840}{}", n)).collect();
    v.extend(with_marker);
    // the packed forms themselves, given as names
    for n in ["_StringPool", "_Tables", "UserTab"] {
        v.push(fmt_codec::pack_name(n, true));
        v.push(fmt_codec::pack_name(n, false));
    }
    v
}

fn length_names() -> Vec<String> {
    let mut v = Vec::new();
    for len in 1..=66usize {
        v.push("p".repeat(len));
        v.push(format!("{}é", "q".repeat(len - 1)));
    }
    for len in [29usize, 30, 31, 32, 33] {
        v.push("é".repeat(len));
        v.push("😀".repeat(len / 2));
        v.push(" ".repeat(len));
    }
    v
}

/// Table data etc. cannot be read / overwritten / removed through the stream calls.
fn run_specials(rep: &mut Report) {
    let names = special_names();
    run_batch(rep, &names, false, json!({"kind": "specials"}));
    run_batch(rep, &names, true, json!({"kind": "specials"}));
    // reading and removing by special names on a package that never wrote them
    let mut b = Bench::new();
    for n in &names {
        let r = guarded(|| {
            let pkg = b.pkg.as_mut().unwrap();
            let readable = pkg.read_stream(n).is_ok();
            let has = pkg.has_stream(n);
            let listed = pkg.streams().any(|s| &s == n);
            (readable, has, listed)
        });
        rep.count("special_name_probes");
        rep.case(Some(fnv(format!("special:{}", n).as_bytes())));
        match r {
            Err(p) => {
                rep.violation(format!("C11/panic/{}", p.signature()), format!("read_stream/has_stream({:?}) panicked: {}", n, p.message), json!({"kind": "specials"}));
                b = Bench::new();
            }
            Ok((readable, has, listed)) => {
                // has_stream() is a plain existence probe on the stored name and is not part of the
                // statement ("never appear in the listing and cannot be read, overwritten or removed")
                let _ = has;
                if readable || listed {
                    rep.violation(
                        format!("C11/non-stream-exposed/{}", name_class(n)),
                        format!("name {:?} was never written as a stream but read_stream ok = {}, has_stream = {}, listed = {}", n, readable, has, listed),
                        json!({"kind": "specials"}),
                    );
                }
            }
        }
        match b.remove(n, rep) {
            Err(f) => {
                rep.violation(format!("C11/{}", f.clause), f.what, json!({"kind": "specials"}));
                b = Bench::new();
            }
            Ok(_) => {}
        }
    }
    if let Err(f) = b.check_nonstream_untouched("probing special names") {
        rep.violation(format!("C11/{}", f.clause), f.what, json!({"kind": "specials"}));
    }
}

/// Stream writers are independent objects (they hold no borrow of the package): sequences in which a writer
/// is still alive while other stream calls are made.  Own signatures, one per scenario and outcome class.
fn run_writer_lifetimes(rep: &mut Report) {
    fn read_all(p: &mut Pkg, n: &str) -> Result<Vec<u8>, String> {
        let mut v = Vec::new();
        p.read_stream(n).map_err(|e| e.to_string())?.read_to_end(&mut v).map_err(|e| e.to_string())?;
        Ok(v)
    }
    type Scen = fn(&mut Pkg) -> Result<Option<String>, String>;
    let scenarios: [(&str, Scen); 4] = [
        ("two-live-writers-same-name", |p| {
            let mut w1 = p.write_stream("A").map_err(|e| e.to_string())?;
            let mut w2 = p.write_stream("A").map_err(|e| e.to_string())?;
            // an error from any of these calls is an acceptable answer
            if w1.write_all(b"first writer data").is_err() || w2.write_all(b"second").is_err() || w1.flush().is_err() || w2.flush().is_err() {
                return Ok(None);
            }
            drop(w1);
            drop(w2);
            let got = read_all(p, "A")?;
            if got != b"first writer data" && got != b"second" {
                return Ok(Some(format!("stream A reads {:?}, which neither writer wrote", String::from_utf8_lossy(&got))));
            }
            Ok(None)
        }),
        ("stale-writer-after-remove", |p| {
            let mut wa = p.write_stream("A").map_err(|e| e.to_string())?;
            wa.write_all(b"aaaa").map_err(|e| e.to_string())?;
            wa.flush().map_err(|e| e.to_string())?;
            p.remove_stream("A").map_err(|e| e.to_string())?;
            let mut wb = p.write_stream("B").map_err(|e| e.to_string())?;
            wb.write_all(b"BBBBBB").map_err(|e| e.to_string())?;
            wb.flush().map_err(|e| e.to_string())?;
            drop(wb);
            // the writer of the removed stream is used again: an error is fine, touching B is not
            let _ = wa.write_all(b"abcdefgh");
            let _ = wa.flush();
            drop(wa);
            let got = read_all(p, "B")?;
            if got != b"BBBBBB" {
                return Ok(Some(format!("stream B reads {:?} after a write through the writer of the removed stream A", String::from_utf8_lossy(&got))));
            }
            let names: Vec<String> = p.streams().collect();
            if names != vec!["B".to_string()] {
                return Ok(Some(format!("streams() = {:?} after A was removed and B written", names)));
            }
            Ok(None)
        }),
        ("writer-alive-while-another-stream-is-written", |p| {
            let mut wa = p.write_stream("A").map_err(|e| e.to_string())?;
            wa.write_all(&[b'a'; 5000]).map_err(|e| e.to_string())?;
            let mut wb = p.write_stream("B").map_err(|e| e.to_string())?;
            wb.write_all(&[b'b'; 100]).map_err(|e| e.to_string())?;
            wb.flush().map_err(|e| e.to_string())?;
            drop(wb);
            wa.write_all(&[b'c'; 5000]).map_err(|e| e.to_string())?;
            wa.flush().map_err(|e| e.to_string())?;
            drop(wa);
            let (a, b) = (read_all(p, "A")?, read_all(p, "B")?);
            let mut want_a = vec![b'a'; 5000];
            want_a.extend_from_slice(&[b'c'; 5000]);
            if a != want_a || b != vec![b'b'; 100] {
                return Ok(Some(format!("A reads {} bytes (want 10000), B reads {} bytes (want 100), or contents differ", a.len(), b.len())));
            }
            Ok(None)
        }),
        ("writer-alive-across-table-operations", |p| {
            let mut wa = p.write_stream("A").map_err(|e| e.to_string())?;
            wa.write_all(&[b'a'; 300]).map_err(|e| e.to_string())?;
            p.create_table("T", vec![msi::Column::build("K").primary_key().int16(), msi::Column::build("V").nullable().string(0)]).map_err(|e| e.to_string())?;
            p.insert_rows(msi::Insert::into("T").row(vec![msi::Value::Int(1), msi::Value::from("t0x1 v")])).map_err(|e| e.to_string())?;
            wa.write_all(&[b'z'; 300]).map_err(|e| e.to_string())?;
            wa.flush().map_err(|e| e.to_string())?;
            drop(wa);
            let a = read_all(p, "A")?;
            let mut want = vec![b'a'; 300];
            want.extend_from_slice(&[b'z'; 300]);
            let rows = p.select_rows(msi::Select::table("T")).map_err(|e| e.to_string())?.count();
            if a != want || rows != 1 {
                return Ok(Some(format!("A reads {} bytes (want 600) or contents differ; T has {} rows (want 1)", a.len(), rows)));
            }
            Ok(None)
        }),
    ];
    for (name, f) in scenarios {
        let med = Medium::new();
        let mut pkg = msi::Package::create(msi::PackageType::Installer, med.handle()).expect("create");
        let r = guarded(|| f(&mut pkg));
        rep.count("writer_lifetime_scenarios");
        rep.case(Some(fnv(format!("writers:{}", name).as_bytes())));
        let w = json!({"kind": "writer-lifetimes", "name": name});
        match r {
            Ok(Ok(None)) => {}
            Ok(Ok(Some(what))) => rep.violation(format!("C11/writer-lifetimes/{}/content", name), what, w),
            Ok(Err(e)) => rep.violation(format!("C11/writer-lifetimes/{}/error", name), format!("an ordinary call of the scenario failed: {}", e), w),
            Err(p) => {
                std::mem::forget(pkg);
                rep.violation(format!("C11/writer-lifetimes/{}/panic", name), format!("panic: {} at {}", p.message, p.location), w);
            }
        }
    }
}

/// remove_digital_signature removes only the signature.
fn run_signature(rep: &mut Report) {
    let mut b = Bench::new();
    let d = b.payload(100);
    let _ = b.write("Keep.me", &d, rep);
    let _ = b.pkg.as_mut().unwrap().flush();
    // add the two signature streams with the container library directly
    let bytes = b.med.live();
    let signed = (|| -> std::io::Result<Vec<u8>> {
        let mut comp = cfb::CompoundFile::open(Cursor::new(bytes))?;
        comp.create_stream("/\u{5}DigitalSignature")?.write_all(b"signature bytes")?;
        comp.create_stream("/\u{5}MsiDigitalSignatureEx")?.write_all(b"signature ex bytes")?;
        comp.flush()?;
        Ok(comp.into_inner().into_inner())
    })();
    let signed = match signed {
        Ok(s) => s,
        Err(e) => {
            rep.inconclusive.push(format!("could not build a signed package: {}", e));
            return;
        }
    };
    let before = fmt_codec::decode(&signed).expect("decode signed");
    let med = Medium::from_bytes(signed);
    let r = guarded(|| -> Result<(bool, bool, Vec<String>), String> {
        let mut p = msi::Package::open(med.handle()).map_err(|e| e.to_string())?;
        let had = p.has_digital_signature();
        let listed: Vec<String> = p.streams().collect();
        p.remove_digital_signature().map_err(|e| e.to_string())?;
        let has = p.has_digital_signature();
        p.flush().map_err(|e| e.to_string())?;
        Ok((had, has, listed))
    });
    rep.count("signature_scenarios");
    rep.case(Some(fnv(b"signature")));
    match r {
        Err(p) => rep.violation(format!("C11/panic/{}", p.signature()), format!("remove_digital_signature panicked: {}", p.message), json!({"kind": "signature"})),
        Ok(Err(e)) => rep.violation("C11/signature-error".into(), format!("signature scenario failed: {}", e), json!({"kind": "signature"})),
        Ok(Ok((had, has, listed))) => {
            if !had || has {
                rep.violation("C11/signature-flag".into(), format!("has_digital_signature before = {}, after removal = {}", had, has), json!({"kind": "signature"}));
            }
            if listed.iter().any(|n| n.contains("DigitalSignature")) {
                rep.violation("C11/signature-listed".into(), format!("signature streams appear in streams(): {:?}", listed), json!({"kind": "signature"}));
            }
            let after = fmt_codec::decode(&med.live()).expect("decode after");
            let b_entries: Vec<&String> = before.entries.iter().map(|e| &e.0).filter(|n| !n.contains("DigitalSignature")).collect();
            let a_entries: Vec<&String> = after.entries.iter().map(|e| &e.0).collect();
            if b_entries != a_entries || after.table_streams != before.table_streams || after.streams != before.streams || after.summary_raw != before.summary_raw {
                rep.violation(
                    "C11/signature-removed-more".into(),
                    format!("remove_digital_signature changed more than the two signature streams: entries before {:?}, after {:?}", b_entries, a_entries),
                    json!({"kind": "signature"}),
                );
            }
        }
    }
}

/// Names that are used both for tables and for streams in the histories.
const SHARED_NAMES: [&str; 5] = ["Icon", "Bin1", "UserTab", "a", "B_1"];

fn random_name(rng: &mut Rng) -> String {
    if rng.chance(1, 8) {
        return rng.pick(&SHARED_NAMES).to_string();
    }
    let len = 1 + rng.usize(6);
    (0..len).map(|_| if rng.chance(1, 3) { *rng.pick(&ALPHABET) } else { *rng.pick(&['a', 'B', '1', '.', '_', 'é', ' ', '-']) }).collect()
}

/// Histories: writes / overwrites / removals interleaved with table operations and reopen.
fn run_history(rep: &mut Report, seed: u64, case: u64) {
    let mut rng = Rng::derive(seed, 11, case);
    let mut b = Bench::new();
    let mut log: Vec<String> = Vec::new();
    let sizes = [0usize, 1, 100, 4095, 4096, 4097, 8192, 8193, 70_000];
    let n_ops = 10 + rng.usize(25);
    let mut key = 10;
    let mut tables: Vec<String> = vec!["UserTab".to_string()];
    for _ in 0..n_ops {
        let live: Vec<String> = b.model.keys().cloned().collect();
        let res: Result<(), Fail> = match rng.below(12) {
            10 => {
                // a table that shares its name with a stream (tables and streams are separate name spaces)
                let n = rng.pick(&SHARED_NAMES).to_string();
                log.push(format!("create table {:?} (+ stream of the same name)", n));
                let r = guarded(|| b.pkg.as_mut().unwrap().create_table(n.clone(), vec![msi::Column::build("K").primary_key().int16(), msi::Column::build("V").nullable().string(0)]));
                match r {
                    Ok(res) => {
                        if res.is_ok() {
                            tables.push(n.clone());
                            let _ = guarded(|| b.pkg.as_mut().unwrap().insert_rows(msi::Insert::into(n.clone()).row(vec![msi::Value::Int(1), msi::Value::from("t0x2 r")])));
                        }
                        let d = b.payload(100);
                        b.rebase().and_then(|_| b.write(&n, &d, rep)).and_then(|_| b.verify(&format!("after create_table({:?}) and write_stream of the same name", n), rep))
                    }
                    Err(p) => Err(fail(format!("panic/{}", p.signature()), p.message)),
                }
            }
            11 if !tables.is_empty() => {
                let n = tables.remove(rng.usize(tables.len()));
                log.push(format!("drop table {:?}", n));
                let r = guarded(|| b.pkg.as_mut().unwrap().drop_table(&n));
                match r {
                    Ok(_) => b.rebase().and_then(|_| b.verify(&format!("after drop_table({:?})", n), rep)),
                    Err(p) => Err(fail(format!("panic/{}", p.signature()), p.message)),
                }
            }
            0..=3 => {
                let n = random_name(&mut rng);
                let sz = if rng.chance(1, 12) { sizes[8] } else { sizes[rng.usize(8)] };
                let d = b.payload(sz);
                log.push(format!("write {:?} {}B", n, d.len()));
                b.write(&n, &d, rep).and_then(|ok| if ok { b.verify(&format!("after write_stream({:?})", n), rep) } else { Ok(()) })
            }
            4 if !live.is_empty() => {
                let n = rng.pick(&live).clone();
                let d = b.payload(sizes[rng.usize(8)]);
                log.push(format!("overwrite {:?} {}B", n, d.len()));
                b.write(&n, &d, rep).and_then(|_| b.verify(&format!("after overwriting {:?}", n), rep))
            }
            5 if !live.is_empty() => {
                let n = rng.pick(&live).clone();
                log.push(format!("remove {:?}", n));
                b.remove(&n, rep).and_then(|_| b.verify(&format!("after remove_stream({:?})", n), rep))
            }
            6 => {
                key += 1;
                log.push("table insert".into());
                let r = guarded(|| b.pkg.as_mut().unwrap().insert_rows(msi::Insert::into("UserTab").row(vec![msi::Value::Int(key), msi::Value::from(format!("t0x{} v", key))])));
                match r {
                    Ok(_) => b.rebase().and_then(|_| b.verify("after a table insert", rep)),
                    Err(p) => Err(fail(format!("panic/{}", p.signature()), p.message)),
                }
            }
            7 => {
                log.push("table update + summary".into());
                let r = guarded(|| {
                    let p = b.pkg.as_mut().unwrap();
                    p.summary_info_mut().set_subject(format!("subject {}", key));
                    p.update_rows(msi::Update::table("UserTab").set("V", msi::Value::Null))
                });
                match r {
                    Ok(_) => b.rebase().and_then(|_| b.verify("after a table update", rep)),
                    Err(p) => Err(fail(format!("panic/{}", p.signature()), p.message)),
                }
            }
            8 => {
                log.push("reopen".into());
                b.reopen().and_then(|_| b.verify("after reopen", rep))
            }
            _ => {
                log.push("check non-stream entries".into());
                b.check_nonstream_untouched("stream operations")
            }
        };
        if let Err(f) = res {
            rep.violation(format!("C11/{}", f.clause), f.what, json!({"kind": "history", "seed": seed, "case": case, "log": log.iter().rev().take(10).rev().collect::<Vec<_>>()}));
            return;
        }
    }
    rep.case(Some(fnv(log.join(";").as_bytes())));
}

fn all_names(max_len: usize) -> Vec<String> {
    let mut out = Vec::new();
    let a = ALPHABET.len();
    for len in 1..=max_len {
        for k in 0..a.pow(len as u32) {
            let mut x = k;
            let mut s = String::new();
            for _ in 0..len {
                s.push(ALPHABET[x % a]);
                x /= a;
            }
            out.push(s);
        }
    }
    out
}

pub fn run(ctx: &Ctx) -> Report {
    if let Some(w) = &ctx.replay {
        let mut rep = Report::new();
        match w["kind"].as_str() {
            Some("writer-lifetimes") => run_writer_lifetimes(&mut rep),
            Some("batch") => {
                let names: Vec<String> = w["names"].as_array().map(|a| a.iter().filter_map(|x| x.as_str().map(|s| s.to_string())).collect()).unwrap_or_default();
                run_batch(&mut rep, &names, w["reverse"].as_bool().unwrap_or(false), w.clone());
            }
            Some("specials") => run_specials(&mut rep),
            Some("signature") => run_signature(&mut rep),
            Some("history") => run_history(&mut rep, w["seed"].as_u64().unwrap_or(ctx.seed), w["case"].as_u64().unwrap_or(0)),
            _ => rep.inconclusive.push("unknown replay kind".into()),
        }
        return rep;
    }
    let thorough = !ctx.quick();
    // names up to length 3 (thorough) / 2 plus a slice of length 3 (quick), batched so that a name and the
    // name its packed form unpacks to are in the same batch
    let mut names = all_names(2);
    let l3: Vec<String> = all_names(3).into_iter().filter(|n| n.chars().count() == 3).collect();
    if thorough {
        names.extend(l3);
    } else {
        names.extend(l3.into_iter().enumerate().filter(|(i, _)| i % 5 == (ctx.seed % 5) as usize).map(|(_, n)| n));
    }
    names.extend(length_names());
    let mut batches: Vec<Vec<String>> = Vec::new();
    let mut cur: Vec<String> = Vec::new();
    for n in names {
        let twin = fmt_codec::unpack_name(&fmt_codec::pack_name(&n, false)).0;
        if twin != n {
            cur.push(twin);
        }
        cur.push(n);
        if cur.len() >= 24 {
            batches.push(std::mem::take(&mut cur));
        }
    }
    if !cur.is_empty() {
        batches.push(cur);
    }
    let n_hist = ctx.budget(3_000, 60_000);
    let seed = ctx.seed;
    let batches_ref = &batches;
    let mut rep = parallel(ctx.threads, |shard, n| {
        let mut rep = Report::new();
        if shard == 0 {
            run_specials(&mut rep);
            run_signature(&mut rep);
            run_writer_lifetimes(&mut rep);
        }
        for (k, b) in batches_ref.iter().enumerate() {
            if k % n != shard {
                continue;
            }
            run_batch(&mut rep, b, false, json!({"kind": "batch", "names": b, "reverse": false}));
            if thorough {
                run_batch(&mut rep, b, true, json!({"kind": "batch", "names": b, "reverse": true}));
            }
            rep.count("name_batches");
        }
        for case in (shard as u64..n_hist).step_by(n) {
            run_history(&mut rep, seed, case);
            rep.count("histories");
        }
        rep
    });
    rep.exhaustive_parts.push(format!("all names of length <= {} over the 20-character adversarial alphabet; packable names of every length 1..66", if thorough { 3 } else { 2 }));
    rep.sample(json!({"batch": batches[0].iter().take(8).collect::<Vec<_>>(), "oracle": "after every accepted write: streams() == live names as given, every live stream reads back its own bytes; then reopen; then remove every other one"}));
    rep.sample(json!({"names": ["00", "\u{3800}"], "why": "the second is what the first is stored as: they must not alias (or one must be refused)"}));
    rep.sample(json!({"special": special_names().iter().take(10).collect::<Vec<_>>()}));
    rep
}
