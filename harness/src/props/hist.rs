//! Shared history runner for the stateful properties (C01, C03, C04, C05, C08).

use crate::engine::{minimize, CloseMode, Finding, Monitors, Session, Step, CLOSE_MODES};
use crate::exprmodel::{Bin, MExpr};
use crate::gen::{Gen, GenCfg};
use crate::model::Op;
use crate::prng::{fnv, Rng};
use crate::report::Report;
use crate::types::{ColDef, CT, V};
use serde_json::{json, Value as J};

/// Records a finding as a violation of `prop`, with a greedily minimised
/// step list as witness.
pub fn record(
    rep: &mut Report,
    prop: &str,
    f: &Finding,
    ptype: &'static str,
    base: Option<&[u8]>,
    steps: &[Step],
    mon: &Monitors,
    case: J,
) {
    let min = if steps.len() > 1 && steps.len() <= 400 { minimize(ptype, base, steps, mon, &f.clause) } else { steps.to_vec() };
    let shown: Vec<J> = min.iter().take(40).map(|s| s.to_json()).collect();
    let mut w = case;
    w["minimised_steps"] = J::Array(shown);
    w["n_steps_original"] = json!(steps.len());
    w["n_steps_minimised"] = json!(min.len());
    w["package_type"] = json!(ptype);
    rep.violation(format!("{}/{}", prop, f.clause), f.what.clone(), w);
}

/// Fingerprint of a history: operation kinds in order + schema shapes + value classes.
pub fn fingerprint(steps: &[Step]) -> u64 {
    let mut s = String::new();
    for st in steps {
        match st {
            Step::Close(m) => s.push_str(&format!("C{:?};", m)),
            Step::Do(op) => {
                s.push_str(op.kind());
                match op {
                    Op::CreateTable { cols, .. } => {
                        for c in cols {
                            s.push_str(&format!(
                                "[{:?}{}{}{}{}]",
                                c.ty,
                                c.key as u8,
                                c.nullable as u8,
                                c.category.unwrap_or("-"),
                                c.enums.len()
                            ));
                        }
                    }
                    Op::Insert { rows, .. } => {
                        for r in rows.iter().take(3) {
                            for v in r {
                                s.push_str(v.class());
                                s.push(',');
                            }
                        }
                    }
                    Op::Update { sets, .. } => {
                        for (_, v) in sets {
                            s.push_str(v.class());
                        }
                    }
                    Op::WriteStream { data, .. } => s.push_str(&format!("{}", data.len().min(9000) / 1000)),
                    Op::SetDbCodepage(id) => s.push_str(&format!("{}", id)),
                    _ => {}
                }
                s.push(';');
            }
        }
    }
    fnv(s.as_bytes())
}

pub fn successful_mutations(rep: &Report) -> u64 {
    rep.counters.iter().filter(|(k, _)| k.starts_with("call_ok_")).map(|(_, v)| *v).sum()
}

/// Generates and runs one random history.  `close_every` inserts a close
/// point after every operation with mode (i + pass) mod 3.
pub struct HistCfg {
    pub n_ops: usize,
    pub gen: GenCfg,
    pub mon: Monitors,
    /// Some(pass): close point after every op, mode rotated by pass
    pub close_pass: Option<usize>,
    /// probability (percent) of a random close point after an op when close_pass is None
    pub random_close_pct: u64,
    pub image_at_close: bool,
}

pub struct HistOutcome {
    pub steps: Vec<Step>,
    pub finding: Option<Finding>,
    pub ok_ops: u64,
}

pub fn run_history(rng: Rng, case: u64, ptype: &'static str, cfg: &HistCfg, rep: &mut Report, fixed_ops: Option<&[Op]>) -> HistOutcome {
    let mut g = Gen::new(rng, cfg.gen.clone(), case);
    let mut steps: Vec<Step> = Vec::new();
    let mut ok_ops = 0;
    let mut s = match Session::create(ptype) {
        Ok(s) => s,
        Err(f) => return HistOutcome { steps, finding: Some(f), ok_ops },
    };
    for i in 0..cfg.n_ops {
        let op = match fixed_ops {
            Some(ops) => match ops.get(i) {
                Some(o) => o.clone(),
                None => break,
            },
            None => g.op(&s.model),
        };
        steps.push(Step::Do(op.clone()));
        let before = successful_mutations(rep);
        if let Err(f) = s.apply(&op, &cfg.mon, rep) {
            s.leak();
            return HistOutcome { steps, finding: Some(f), ok_ops };
        }
        ok_ops += successful_mutations(rep) - before;
        let close = match cfg.close_pass {
            Some(p) => Some(CLOSE_MODES[(i + p) % 3]),
            None => {
                if g.rng.chance(cfg.random_close_pct, 100) {
                    Some(CLOSE_MODES[g.rng.usize(3)])
                } else {
                    None
                }
            }
        };
        if let Some(m) = close {
            steps.push(Step::Close(m));
            if let Err(f) = s.close_point(m, rep) {
                s.leak();
                return HistOutcome { steps, finding: Some(f), ok_ops };
            }
            if cfg.image_at_close {
                let obs = match s.observe() {
                    Ok(o) => o,
                    Err(f) => {
                        s.leak();
                        return HistOutcome { steps, finding: Some(f), ok_ops };
                    }
                };
                let bytes = s.med.live();
                rep.count("saved_images_decoded");
                if let Err(f) = crate::engine::check_image(&bytes, &obs, &s.dead_tokens) {
                    return HistOutcome { steps, finding: Some(f), ok_ops };
                }
            }
        }
    }
    HistOutcome { steps, finding: None, ok_ops }
}

// --------------------------------------------------------------------------
// The small alphabet used by the bounded-exhaustive parts of C03 / C05.

pub fn alpha_schema() -> Vec<ColDef> {
    vec![ColDef::new("K", CT::Int16).key(), ColDef::new("V", CT::Str(20)).nullable()]
}

fn k_eq(k: i32) -> Option<MExpr> {
    Some(MExpr::Bin(Bin::Eq, Box::new(MExpr::Col("K".into())), Box::new(MExpr::Lit(V::Int(k)))))
}

/// Letter -> step.  `n` is the position in the sequence (used for unique tokens).
pub fn letter(l: char, n: usize) -> Vec<Step> {
    let t = "T".to_string();
    let tok = |k: &str| V::Str(format!("t0x{}{}", n + 1, k));
    let d = |op: Op| vec![Step::Do(op)];
    match l {
        'a' => d(Op::Insert { table: t, rows: vec![vec![V::Int(1), tok("a")]] }),
        'b' => d(Op::Insert { table: t, rows: vec![vec![V::Int(2), V::Null]] }),
        'c' => d(Op::Insert { table: t, rows: vec![vec![V::Int(4), tok("c")], vec![V::Int(3), tok("d")]] }),
        'd' => d(Op::Insert { table: t, rows: vec![vec![V::Int(5), tok("e")], vec![V::Int(1), tok("f")]] }),
        'e' => d(Op::Update { table: t, sets: vec![("V".into(), tok("u"))], cond: k_eq(1) }),
        'f' => d(Op::Update { table: t, sets: vec![("V".into(), V::Null)], cond: None }),
        'g' => d(Op::Update { table: t, sets: vec![("K".into(), V::Int(9))], cond: k_eq(1) }),
        'h' => d(Op::Update { table: t, sets: vec![("K".into(), V::Int(2))], cond: None }),
        'i' => d(Op::Update {
            table: t,
            sets: vec![("K".into(), V::Int(0))],
            cond: Some(MExpr::Bin(Bin::Ge, Box::new(MExpr::Col("K".into())), Box::new(MExpr::Lit(V::Int(4))))),
        }),
        'm' => d(Op::Update { table: t, sets: vec![("K".into(), V::Int(9)), ("V".into(), tok("m"))], cond: k_eq(1) }),
        'n' => d(Op::Update { table: t, sets: vec![("V".into(), tok("n")), ("K".into(), V::Int(3))], cond: k_eq(4) }),
        'j' => d(Op::Delete { table: t, cond: k_eq(1) }),
        'k' => d(Op::Delete {
            table: t,
            cond: Some(MExpr::Bin(Bin::Ne, Box::new(MExpr::Col("V".into())), Box::new(MExpr::Lit(V::Null)))),
        }),
        'l' => d(Op::Delete { table: t, cond: None }),
        'r' => vec![Step::Close(CloseMode::IntoInner)],
        'x' => vec![Step::Do(Op::DropTable { name: t.clone() }), Step::Do(Op::CreateTable { name: t, cols: alpha_schema() })],
        _ => vec![],
    }
}

pub fn expand(word: &[char]) -> Vec<Step> {
    word.iter().enumerate().flat_map(|(i, l)| letter(*l, i)).collect()
}

/// Enumerates all words over `alphabet` of length 1..=depth, calling f(index, word).
pub fn for_each_word(alphabet: &[char], depth: usize, shard: usize, n: usize, mut f: impl FnMut(u64, &[char])) {
    let a = alphabet.len() as u64;
    let mut index = 0u64;
    for len in 1..=depth {
        let total = a.pow(len as u32);
        for k in 0..total {
            if (index % n as u64) as usize == shard {
                let mut w = Vec::with_capacity(len);
                let mut x = k;
                for _ in 0..len {
                    w.push(alphabet[(x % a) as usize]);
                    x /= a;
                }
                f(index, &w);
            }
            index += 1;
        }
    }
}

/// Base image for the alphabet sequences: a package with table T.
pub fn alpha_base() -> Vec<u8> {
    let mut s = Session::create("Installer").expect("create");
    let mut scratch = Report::new();
    s.apply(&Op::CreateTable { name: "T".into(), cols: alpha_schema() }, &Monitors::default(), &mut scratch).expect("create T");
    let pkg = s.pkg.take().unwrap();
    pkg.into_inner().expect("into_inner");
    s.med.live()
}
