//! C19 — printed queries mean what the query objects mean.
//!
//! print (library) -> independent precedence parser -> evaluate original model
//! AST and parsed AST with the model evaluator on a battery of rows.

use crate::exprmodel::{self as em, Bin, MExpr, Un, ALL_BIN, ALL_UN};
use crate::exprparse;
use crate::panicmon::guarded;
use crate::prng::{fnv, Rng};
use crate::props::c13::{mexpr_from_json, mexpr_to_json};
use crate::querymodel::{JoinKind, MFrom, MSelect, MStmt};
use crate::report::{parallel, Report};
use crate::types::V;
use crate::Ctx;
use serde_json::json;
use std::collections::BTreeSet;

fn battery_values() -> Vec<V> {
    vec![V::Null, V::Int(0), V::Int(1), V::Int(-1), V::Int(2), V::Int(3), V::Int(7), V::s(""), V::s("a"), V::s("b")]
}

/// Do the two expressions evaluate identically (same admissible sets) on
/// every row of the battery over their columns?  Returns the first
/// distinguishing row.
fn distinguish(a: &MExpr, b: &MExpr, rng: &mut Rng) -> Option<Vec<(String, V)>> {
    let mut cols = BTreeSet::new();
    em::columns_of(a, &mut cols);
    em::columns_of(b, &mut cols);
    let cols: Vec<String> = cols.into_iter().collect();
    let vals = battery_values();
    let total: usize = vals.len().pow(cols.len().min(3) as u32);
    let rows: Vec<Vec<(String, V)>> = if cols.len() <= 3 {
        (0..total)
            .map(|mut k| {
                cols.iter()
                    .map(|c| {
                        let v = vals[k % vals.len()].clone();
                        k /= vals.len();
                        (c.clone(), v)
                    })
                    .collect()
            })
            .collect()
    } else {
        (0..600).map(|_| cols.iter().map(|c| (c.clone(), rng.pick(&vals).clone())).collect()).collect()
    };
    for row in rows {
        let x = em::eval(a, &row);
        let y = em::eval(b, &row);
        if x != y {
            return Some(row);
        }
    }
    None
}

fn un_name(e: &MExpr) -> String {
    match e {
        MExpr::Lit(_) => "lit".into(),
        MExpr::Col(_) => "col".into(),
        MExpr::Un(o, _) => format!("{:?}", o),
        MExpr::Bin(o, _, _) => format!("{:?}", o),
        MExpr::And(..) => "And".into(),
        MExpr::Or(..) => "Or".into(),
    }
}

fn pair_shape(e: &MExpr) -> String {
    // parent operator + child operators: identifies the parenthesisation decision
    match e {
        MExpr::Un(_, a) => format!("{}({})", un_name(e), un_name(a)),
        MExpr::Bin(_, a, b) | MExpr::And(a, b) | MExpr::Or(a, b) => format!("{}({},{})", un_name(e), un_name(a), un_name(b)),
        _ => un_name(e),
    }
}

fn shape3(e: &MExpr) -> String {
    match e {
        MExpr::Un(_, a) => format!("{}({})", un_name(e), pair_shape(a)),
        MExpr::Bin(_, a, b) | MExpr::And(a, b) | MExpr::Or(a, b) => format!("{}({},{})", un_name(e), pair_shape(a), pair_shape(b)),
        _ => un_name(e),
    }
}

fn print_expr(e: &MExpr) -> Result<String, crate::panicmon::PanicInfo> {
    guarded(|| format!("{}", em::lower(e)))
}

fn has_columns(e: &MExpr) -> bool {
    let mut c = BTreeSet::new();
    em::columns_of(e, &mut c);
    !c.is_empty()
}

/// The library folds literal-only arithmetic/comparison subtrees when the
/// expression object is built (C13 decides whether it folds correctly).  The
/// object's meaning is therefore the tree with those subtrees replaced by the
/// literal the object holds, which is obtained from the library itself by
/// printing the literal-only subtree on its own.
fn fold_literals(e: &MExpr) -> Option<MExpr> {
    if matches!(e, MExpr::Lit(_) | MExpr::Col(_)) {
        return Some(e.clone());
    }
    if !has_columns(e) {
        let text = print_expr(e).ok()?;
        return exprparse::parse_expr(&text).ok().or_else(|| Some(e.clone()));
    }
    Some(match e {
        MExpr::Un(o, a) => MExpr::Un(*o, Box::new(fold_literals(a)?)),
        MExpr::Bin(o, a, b) => MExpr::Bin(*o, Box::new(fold_literals(a)?), Box::new(fold_literals(b)?)),
        MExpr::And(a, b) => MExpr::And(Box::new(fold_literals(a)?), Box::new(fold_literals(b)?)),
        MExpr::Or(a, b) => MExpr::Or(Box::new(fold_literals(a)?), Box::new(fold_literals(b)?)),
        other => other.clone(),
    })
}

/// Some((kind, message)) when the printed form of `e` does not mean `e`.
/// None also when the case cannot be judged here (construction panics: C13).
fn verdict(e: &MExpr, rng: &mut Rng) -> Result<Option<(&'static str, String)>, ()> {
    let text = print_expr(e).map_err(|_| ())?;
    let parsed = match exprparse::parse_expr(&text) {
        Ok(p) => p,
        Err(err) => {
            return Ok(Some((
                "unreadable",
                format!("{} prints as {:?}, which the grammar's precedence reader cannot read: {}", em::show(e), text, err),
            )))
        }
    };
    let mut c1 = BTreeSet::new();
    let mut c2 = BTreeSet::new();
    em::columns_of(e, &mut c1);
    em::columns_of(&parsed, &mut c2);
    if c1 != c2 {
        return Ok(Some(("columns", format!("{} prints as {:?}, which names columns {:?} instead of {:?}", em::show(e), text, c2, c1))));
    }
    let folded = fold_literals(e).ok_or(())?;
    if let Some(row) = distinguish(&folded, &parsed, rng) {
        return Ok(Some((
            "meaning",
            format!(
                "{} prints as {:?}, which reads as {} and evaluates differently on row {:?}",
                em::show(e),
                text,
                em::show(&parsed),
                row.iter().map(|(c, v)| format!("{}={}", c, v.to_json())).collect::<Vec<_>>()
            ),
        )));
    }
    Ok(None)
}

fn children(e: &MExpr) -> Vec<&MExpr> {
    match e {
        MExpr::Un(_, a) => vec![a],
        MExpr::Bin(_, a, b) | MExpr::And(a, b) | MExpr::Or(a, b) => vec![a, b],
        _ => vec![],
    }
}

/// All paths to composite (non-leaf) nodes below the root.
fn composite_paths(e: &MExpr, prefix: &mut Vec<usize>, out: &mut Vec<Vec<usize>>) {
    for (i, c) in children(e).into_iter().enumerate() {
        if !children(c).is_empty() {
            prefix.push(i);
            out.push(prefix.clone());
            composite_paths(c, prefix, out);
            prefix.pop();
        }
    }
}

fn replace_at(e: &MExpr, path: &[usize], with: &MExpr) -> MExpr {
    if path.is_empty() {
        return with.clone();
    }
    let sub = |i: usize, c: &MExpr| if i == path[0] { replace_at(c, &path[1..], with) } else { c.clone() };
    match e {
        MExpr::Un(o, a) => MExpr::Un(*o, Box::new(sub(0, a))),
        MExpr::Bin(o, a, b) => MExpr::Bin(*o, Box::new(sub(0, a)), Box::new(sub(1, b))),
        MExpr::And(a, b) => MExpr::And(Box::new(sub(0, a)), Box::new(sub(1, b))),
        MExpr::Or(a, b) => MExpr::Or(Box::new(sub(0, a)), Box::new(sub(1, b))),
        other => other.clone(),
    }
}

/// Greedy minimisation: descend into failing subtrees, replace composite
/// sub-expressions by fresh column leaves while the oracle still fires.
fn minimize(e: &MExpr, rng: &mut Rng) -> MExpr {
    let mut cur = e.clone();
    let mut budget = 200;
    'outer: while budget > 0 {
        for c in children(&cur) {
            budget -= 1;
            if matches!(verdict(c, rng), Ok(Some(_))) {
                cur = c.clone();
                continue 'outer;
            }
        }
        let mut paths = Vec::new();
        composite_paths(&cur, &mut Vec::new(), &mut paths);
        for (k, p) in paths.iter().enumerate() {
            budget -= 1;
            let cand = replace_at(&cur, p, &MExpr::Col(format!("m{}", k)));
            if matches!(verdict(&cand, rng), Ok(Some(_))) {
                cur = cand;
                continue 'outer;
            }
        }
        break;
    }
    cur
}

pub fn check_expr(rep: &mut Report, e: &MExpr, rng: &mut Rng) {
    match verdict(e, rng) {
        Err(()) => {
            // construction/formatting panics belong to C13 (totality); not decided here
            rep.count("construction_panicked_skipped");
        }
        Ok(None) => rep.case(Some(fnv(shape3(e).as_bytes()))),
        Ok(Some(_)) => {
            rep.case(Some(fnv(shape3(e).as_bytes())));
            let m = minimize(e, rng);
            if let Ok(Some((kind, msg))) = verdict(&m, rng) {
                rep.violation(format!("C19/{}/{}", kind, pair_shape(&m)), msg, json!({"expr": mexpr_to_json(&m), "original": em::show(e)}));
            }
        }
    }
}

fn all_ops() -> Vec<String> {
    let mut v: Vec<String> = ALL_UN.iter().map(|u| format!("{:?}", u)).collect();
    v.extend(ALL_BIN.iter().map(|b| format!("{:?}", b)));
    v.push("And".into());
    v.push("Or".into());
    v
}

fn build(op: &str, args: Vec<MExpr>) -> MExpr {
    if let Some(u) = ALL_UN.iter().find(|u| format!("{:?}", u) == op) {
        return MExpr::Un(*u, Box::new(args[0].clone()));
    }
    let a = Box::new(args[0].clone());
    let b = Box::new(args.get(1).cloned().unwrap_or(MExpr::Col("z".into())));
    if let Some(o) = ALL_BIN.iter().find(|o| format!("{:?}", o) == op) {
        return MExpr::Bin(*o, a, b);
    }
    if op == "And" {
        MExpr::And(a, b)
    } else {
        MExpr::Or(a, b)
    }
}

fn is_unary(op: &str) -> bool {
    ALL_UN.iter().any(|u| format!("{:?}", u) == op)
}

/// Every (parent operator, child operator, side) triple with column and literal leaves.
fn operator_pairs() -> Vec<MExpr> {
    let ops = all_ops();
    let leaves = [
        [MExpr::Col("a".into()), MExpr::Col("b".into()), MExpr::Col("c".into())],
        [MExpr::Col("T.a".into()), MExpr::Lit(V::Int(2)), MExpr::Col("b".into())],
        [MExpr::Lit(V::s("a")), MExpr::Col("a".into()), MExpr::Lit(V::Int(-1))],
    ];
    let mut out = Vec::new();
    for ls in leaves.iter() {
        for child_op in &ops {
            let child = if is_unary(child_op) { build(child_op, vec![ls[0].clone()]) } else { build(child_op, vec![ls[0].clone(), ls[1].clone()]) };
            for parent_op in &ops {
                if is_unary(parent_op) {
                    out.push(build(parent_op, vec![child.clone()]));
                } else {
                    out.push(build(parent_op, vec![child.clone(), ls[2].clone()]));
                    out.push(build(parent_op, vec![ls[2].clone(), child.clone()]));
                    out.push(build(parent_op, vec![child.clone(), child.clone()]));
                }
            }
        }
    }
    out
}

/// Depth-3 chains of distinct operators, composite child on either side.
fn chains(ops: &[String]) -> Vec<MExpr> {
    let mut out = Vec::new();
    let x = MExpr::Col("a".into());
    let y = MExpr::Col("b".into());
    let z = MExpr::Col("c".into());
    for o1 in ops {
        for o2 in ops {
            for o3 in ops {
                let inner = if is_unary(o3) { build(o3, vec![x.clone()]) } else { build(o3, vec![x.clone(), y.clone()]) };
                for side in 0..2 {
                    let mid = if is_unary(o2) {
                        build(o2, vec![inner.clone()])
                    } else if side == 0 {
                        build(o2, vec![inner.clone(), z.clone()])
                    } else {
                        build(o2, vec![z.clone(), inner.clone()])
                    };
                    for side2 in 0..2 {
                        let top = if is_unary(o1) {
                            build(o1, vec![mid.clone()])
                        } else if side2 == 0 {
                            build(o1, vec![mid.clone(), y.clone()])
                        } else {
                            build(o1, vec![y.clone(), mid.clone()])
                        };
                        out.push(top);
                        if is_unary(o1) {
                            break;
                        }
                    }
                    if is_unary(o2) {
                        break;
                    }
                }
            }
        }
    }
    out
}

// ---------------------------------------------------------------- statements

const TABLES: [&str; 4] = ["Foo", "Bar", "Quux", "T_1"];
const COLS: [&str; 5] = ["a", "b", "Key", "x_1", "Val"];

fn safe_string(rng: &mut Rng) -> String {
    let alphabet: Vec<char> = "abcXYZ019 _.-".chars().collect();
    let n = rng.usize(6);
    (0..n).map(|_| *rng.pick(&alphabet)).collect()
}

fn rand_lit(rng: &mut Rng) -> V {
    match rng.below(5) {
        0 => V::Null,
        1 => V::Int(rng.range(-40000, 40000) as i32),
        2 => V::Int(*rng.pick(&[0, 1, -1, i32::MAX, i32::MIN, 32767])),
        _ => V::Str(safe_string(rng)),
    }
}

fn rand_cond(rng: &mut Rng, cols: &[String]) -> MExpr {
    let lits = [V::Int(0), V::Int(17), V::Int(-3), V::s("x y"), V::Null, V::s("")];
    let d = 1 + rng.usize(3);
    em::random_expr(rng, d, &lits, cols)
}

fn rand_select(rng: &mut Rng, depth: usize) -> MSelect {
    let mut s = if depth == 0 || rng.chance(1, 3) {
        MSelect::table(*rng.pick(&TABLES[..]))
    } else {
        let l = rand_select(rng, depth - 1);
        let r = rand_select(rng, depth - 1);
        let cols: Vec<String> = COLS.iter().map(|c| format!("{}.{}", rng.pick(&TABLES), c)).collect();
        let kind = if rng.chance(1, 2) { JoinKind::Inner } else { JoinKind::Left };
        MSelect::join(kind, l, r, rand_cond(rng, &cols))
    };
    if rng.chance(1, 3) {
        let n = 1 + rng.usize(3);
        s.cols = (0..n)
            .map(|_| if rng.chance(1, 2) { rng.pick(&COLS).to_string() } else { format!("{}.{}", rng.pick(&TABLES), rng.pick(&COLS)) })
            .collect();
    }
    if rng.chance(1, 3) {
        let cols: Vec<String> = COLS.iter().map(|c| c.to_string()).collect();
        s.cond = rand_where(rng, &cols);
    }
    s
}

/// A WHERE condition; one in three is a top-level conjunction (given to the library as two `with()` calls
/// for every second shape, see `model::split_and`).
fn rand_where(rng: &mut Rng, cols: &[String]) -> Option<MExpr> {
    if rng.chance(1, 4) {
        None
    } else if rng.chance(1, 3) {
        Some(MExpr::And(Box::new(rand_cond(rng, cols)), Box::new(rand_cond(rng, cols))))
    } else {
        Some(rand_cond(rng, cols))
    }
}

fn rand_stmt(rng: &mut Rng) -> MStmt {
    let cols: Vec<String> = COLS.iter().map(|c| c.to_string()).collect();
    match rng.below(6) {
        0 => MStmt::Delete { table: rng.pick(&TABLES).to_string(), cond: rand_where(rng, &cols) },
        1 => {
            let n = rng.usize(4);
            let w = 1 + rng.usize(4);
            MStmt::Insert { table: rng.pick(&TABLES).to_string(), rows: (0..n).map(|_| (0..w).map(|_| rand_lit(rng)).collect()).collect() }
        }
        2 => {
            let n = 1 + rng.usize(3);
            MStmt::Update {
                table: rng.pick(&TABLES).to_string(),
                sets: (0..n).map(|_| (rng.pick(&COLS).to_string(), rand_lit(rng))).collect(),
                cond: rand_where(rng, &cols),
            }
        }
        _ => {
            let d = rng.usize(4);
            MStmt::Select(rand_select(rng, d))
        }
    }
}

fn lower_and_print(s: &MStmt) -> Result<String, crate::panicmon::PanicInfo> {
    guarded(|| match s {
        MStmt::Select(q) => format!("{}", q.lower()),
        MStmt::Insert { table, rows } => {
            let q = msi::Insert::into(table.clone()).rows(rows.iter().map(|r| r.iter().map(|v| v.to_msi()).collect()).collect());
            format!("{}", q)
        }
        MStmt::Update { table, sets, cond } => {
            let mut q = msi::Update::table(table.clone());
            for (c, v) in sets {
                q = q.set(c.clone(), v.to_msi());
            }
            match crate::model::split_and(cond) {
                Some((a, b)) => q = q.with(em::lower(a)).with(em::lower(b)),
                None => {
                    if let Some(e) = cond {
                        q = q.with(em::lower(e));
                    }
                }
            }
            format!("{}", q)
        }
        MStmt::Delete { table, cond } => {
            let mut q = msi::Delete::from(table.clone());
            match crate::model::split_and(cond) {
                Some((a, b)) => q = q.with(em::lower(a)).with(em::lower(b)),
                None => {
                    if let Some(e) = cond {
                        q = q.with(em::lower(e));
                    }
                }
            }
            format!("{}", q)
        }
    })
}

fn same_cond(a: &Option<MExpr>, b: &Option<MExpr>, rng: &mut Rng) -> Result<(), String> {
    match (a, b) {
        (None, None) => Ok(()),
        (Some(x), Some(y)) => {
            let mut c1 = BTreeSet::new();
            let mut c2 = BTreeSet::new();
            em::columns_of(x, &mut c1);
            em::columns_of(y, &mut c2);
            if c1 != c2 {
                return Err(format!("condition names columns {:?} instead of {:?}", c2, c1));
            }
            let fx = fold_literals(x).unwrap_or_else(|| x.clone());
            match distinguish(&fx, y, rng) {
                None => Ok(()),
                Some(row) => Err(format!("condition {} reads as {} and differs on {:?}", em::show(x), em::show(y), row)),
            }
        }
        _ => Err("condition present on one side only".into()),
    }
}

fn same_select(a: &MSelect, b: &MSelect, rng: &mut Rng) -> Result<(), String> {
    if a.cols != b.cols {
        return Err(format!("column list {:?} reads as {:?}", a.cols, b.cols));
    }
    same_cond(&a.cond, &b.cond, rng)?;
    match (&a.from, &b.from) {
        (MFrom::Table(x), MFrom::Table(y)) => {
            if x == y {
                Ok(())
            } else {
                Err(format!("table {:?} reads as {:?}", x, y))
            }
        }
        (MFrom::Join { kind: k1, l: l1, r: r1, on: o1 }, MFrom::Join { kind: k2, l: l2, r: r2, on: o2 }) => {
            if k1 != k2 {
                return Err(format!("join kind {:?} reads as {:?}", k1, k2));
            }
            same_select(l1, l2, rng)?;
            same_select(r1, r2, rng)?;
            same_cond(&Some(o1.clone()), &Some(o2.clone()), rng)
        }
        (x, y) => Err(format!("source {:?} reads as {:?}", x, y)),
    }
}

fn stmt_kind(s: &MStmt) -> &'static str {
    match s {
        MStmt::Select(_) => "select",
        MStmt::Insert { .. } => "insert",
        MStmt::Update { .. } => "update",
        MStmt::Delete { .. } => "delete",
    }
}

fn stmt_shape(s: &MStmt) -> String {
    match s {
        MStmt::Select(q) => format!("select:{}:{}:{}", q.depth(), q.cols.len(), q.cond.is_some()),
        MStmt::Insert { rows, .. } => format!("insert:{}:{}", rows.len(), rows.first().map(|r| r.len()).unwrap_or(0)),
        MStmt::Update { sets, cond, .. } => format!("update:{}:{}", sets.len(), cond.as_ref().map(pair_shape).unwrap_or_default()),
        MStmt::Delete { cond, .. } => format!("delete:{}", cond.as_ref().map(pair_shape).unwrap_or_default()),
    }
}

fn check_stmt(rep: &mut Report, s: &MStmt, rng: &mut Rng) {
    let text = match lower_and_print(s) {
        Ok(t) => t,
        Err(_) => {
            rep.count("construction_panicked_skipped");
            return;
        }
    };
    rep.case(Some(fnv(stmt_shape(s).as_bytes())));
    rep.count(&format!("statements_{}", stmt_kind(s)));
    let parsed = match exprparse::parse_statement(&text) {
        Ok(p) => p,
        Err(err) => {
            rep.violation(
                format!("C19/stmt-unreadable/{}", stmt_kind(s)),
                format!("statement prints as {:?}, which cannot be read back: {}", text, err),
                json!({"stmt_text": text, "seed_note": "statement witnesses are replayed by re-running the statement lane"}),
            );
            return;
        }
    };
    let res: Result<(), String> = match (s, &parsed) {
        (MStmt::Select(a), MStmt::Select(b)) => same_select(a, b, rng),
        (MStmt::Insert { table: t1, rows: r1 }, MStmt::Insert { table: t2, rows: r2 }) => {
            if t1 != t2 {
                Err(format!("table {:?} reads as {:?}", t1, t2))
            } else if r1 != r2 {
                Err(format!("values {:?} read as {:?}", r1, r2))
            } else {
                Ok(())
            }
        }
        (MStmt::Update { table: t1, sets: s1, cond: c1 }, MStmt::Update { table: t2, sets: s2, cond: c2 }) => {
            if t1 != t2 {
                Err(format!("table {:?} reads as {:?}", t1, t2))
            } else if s1 != s2 {
                Err(format!("assignments {:?} read as {:?}", s1, s2))
            } else {
                same_cond(c1, c2, rng)
            }
        }
        (MStmt::Delete { table: t1, cond: c1 }, MStmt::Delete { table: t2, cond: c2 }) => {
            if t1 != t2 {
                Err(format!("table {:?} reads as {:?}", t1, t2))
            } else {
                same_cond(c1, c2, rng)
            }
        }
        _ => Err("statement kind changed".into()),
    };
    if let Err(why) = res {
        rep.violation(
            format!("C19/stmt-meaning/{}", stmt_kind(s)),
            format!("statement prints as {:?}: {}", text, why),
            json!({"stmt_text": text}),
        );
    }
}

pub fn run(ctx: &Ctx) -> Report {
    if let Some(w) = &ctx.replay {
        let mut rep = Report::new();
        let mut rng = Rng::new(ctx.seed);
        match mexpr_from_json(&w["expr"]) {
            Some(e) => check_expr(&mut rep, &e, &mut rng),
            None => {
                // statement witnesses: re-run the deterministic statement lane of seed/tier recorded in the file
                let seed = w["_seed"].as_u64().unwrap_or(ctx.seed);
                for shard in 0..ctx.threads {
                    let mut r = Rng::derive(seed, 1919, shard as u64);
                    for _ in 0..(ctx.budget(30_000, 1_000_000) / ctx.threads as u64) {
                        let s = rand_stmt(&mut r);
                        check_stmt(&mut rep, &s, &mut r);
                    }
                }
            }
        }
        return rep;
    }
    let pairs = operator_pairs();
    let ops = all_ops();
    // quick: chains over one representative per precedence level; thorough: all 20 operators
    let level_reps: Vec<String> =
        ["Or", "And", "Not", "Eq", "Lt", "BitOr", "BitXor", "BitAnd", "Shl", "Add", "Sub", "Mul", "Div", "Neg", "BitNot"].iter().map(|s| s.to_string()).collect();
    let chain_list = if ctx.quick() { chains(&level_reps) } else { chains(&ops) };
    let seed = ctx.seed;
    let expr_budget = ctx.budget(250_000, 6_000_000);
    let stmt_budget = ctx.budget(30_000, 1_000_000);
    let pairs_ref = &pairs;
    let chain_ref = &chain_list;
    let mut rep = parallel(ctx.threads, |shard, n| {
        let mut rep = Report::new();
        let mut rng = Rng::derive(seed, 19, shard as u64);
        for (k, e) in pairs_ref.iter().enumerate() {
            if k % n == shard {
                check_expr(&mut rep, e, &mut rng);
                rep.count("operator_pair_trees");
            }
        }
        for (k, e) in chain_ref.iter().enumerate() {
            if k % n == shard {
                check_expr(&mut rep, e, &mut rng);
                rep.count("chain_trees");
            }
        }
        let cols: Vec<String> = ["a", "b", "c", "T.d"].iter().map(|s| s.to_string()).collect();
        let lits = [V::Null, V::Int(0), V::Int(1), V::Int(-1), V::Int(2), V::Int(3), V::Int(7), V::s(""), V::s("a"), V::s("b c")];
        for _ in 0..(expr_budget / n as u64) {
            let d = 2 + rng.usize(5);
            let e = em::random_expr(&mut rng, d, &lits, &cols);
            check_expr(&mut rep, &e, &mut rng);
            rep.count("random_trees");
        }
        let mut srng = Rng::derive(seed, 1919, shard as u64);
        for _ in 0..(stmt_budget / n as u64) {
            let s = rand_stmt(&mut srng);
            check_stmt(&mut rep, &s, &mut srng);
        }
        rep
    });
    rep.exhaustive_parts.push("every (parent operator, child operator, side) triple over all 20 operators".into());
    let not_eq = MExpr::Bin(Bin::Eq, Box::new(MExpr::Un(Un::Not, Box::new(MExpr::Col("a".into())))), Box::new(MExpr::Col("b".into())));
    for e in [
        not_eq,
        MExpr::Bin(Bin::Sub, Box::new(MExpr::Col("a".into())), Box::new(MExpr::Bin(Bin::Sub, Box::new(MExpr::Col("b".into())), Box::new(MExpr::Col("c".into()))))),
        MExpr::And(Box::new(MExpr::Or(Box::new(MExpr::Col("a".into())), Box::new(MExpr::Col("b".into())))), Box::new(MExpr::Col("c".into()))),
    ] {
        let text = print_expr(&e).unwrap_or_else(|p| format!("<panic {}>", p.message));
        let back = exprparse::parse_expr(&text).map(|p| em::show(&p)).unwrap_or_else(|e| format!("<unreadable: {}>", e));
        rep.sample(json!({"tree": em::show(&e), "printed": text, "read_back_as": back}));
    }
    let mut r = Rng::new(7);
    let s = MStmt::Select(rand_select(&mut r, 2));
    rep.sample(json!({"statement_printed": lower_and_print(&s).unwrap_or_default()}));
    rep
}
