//! C10 — summary information survives saving, in every code page.
//!
//! Model of the ten properties + an independent parser of the raw
//! `\u{5}SummaryInformation` property-set stream.

use crate::cpora;
use crate::fmt_codec;
use crate::gen::{Gen, GenCfg};
use crate::medium::Medium;
use crate::model::{apply_sumop, Model, Op, SumOp};
use crate::observe::{observe_summary, SummaryObs};
use crate::panicmon::guarded;
use crate::prng::{fnv, Rng};
use crate::propset_codec::{self, PVal};
use crate::report::{parallel, Report};
use crate::Ctx;
use serde_json::json;
use std::io::Cursor;

type Pkg = msi::Package<crate::medium::Handle>;

const T1601_NS: i128 = -11_644_473_600 * 1_000_000_000;

struct Bench {
    med: Medium,
    pkg: Pkg,
    model: Model,
    /// string properties whose value is not representable in the current page: only required not to disturb the others
    dont_care: Vec<&'static str>,
    log: Vec<String>,
}

struct Fail {
    clause: String,
    what: String,
}

fn fail(c: impl Into<String>, w: impl Into<String>) -> Fail {
    Fail { clause: c.into(), what: w.into() }
}

fn prop_name(op: &SumOp) -> &'static str {
    match op {
        SumOp::SetTitle(_) | SumOp::ClearTitle => "title",
        SumOp::SetSubject(_) | SumOp::ClearSubject => "subject",
        SumOp::SetAuthor(_) | SumOp::ClearAuthor => "author",
        SumOp::SetComments(_) | SumOp::ClearComments => "comments",
        SumOp::SetCreatingApp(_) | SumOp::ClearCreatingApp => "creating_app",
        SumOp::SetUuid(_) | SumOp::ClearUuid => "uuid",
        SumOp::SetWordCount(_) | SumOp::ClearWordCount => "word_count",
        SumOp::SetCreationTime(_) | SumOp::ClearCreationTime => "creation_time",
        SumOp::SetArch(_) | SumOp::ClearArch => "arch",
        SumOp::SetLanguages(_) | SumOp::ClearLanguages => "languages",
        SumOp::SetCodepage(_) => "codepage",
    }
}

fn string_of(op: &SumOp) -> Option<&String> {
    match op {
        SumOp::SetTitle(s) | SumOp::SetSubject(s) | SumOp::SetAuthor(s) | SumOp::SetComments(s) | SumOp::SetCreatingApp(s) | SumOp::SetArch(s) => Some(s),
        _ => None,
    }
}

fn masked(mut o: SummaryObs, dont_care: &[&str]) -> SummaryObs {
    for d in dont_care {
        match *d {
            "title" => o.title = None,
            "subject" => o.subject = None,
            "author" => o.author = None,
            "comments" => o.comments = None,
            "creating_app" => o.creating_app = None,
            "arch" => {
                o.arch = None;
            }
            _ => {}
        }
    }
    o
}

fn diff_prop(a: &SummaryObs, b: &SummaryObs) -> Option<&'static str> {
    if a.codepage != b.codepage {
        return Some("codepage");
    }
    if a.title != b.title {
        return Some("title");
    }
    if a.subject != b.subject {
        return Some("subject");
    }
    if a.author != b.author {
        return Some("author");
    }
    if a.comments != b.comments {
        return Some("comments");
    }
    if a.creating_app != b.creating_app {
        return Some("creating_app");
    }
    if a.uuid != b.uuid {
        return Some("uuid");
    }
    if a.word_count != b.word_count {
        return Some("word_count");
    }
    if a.creation_time != b.creation_time {
        return Some("creation_time");
    }
    if a.arch != b.arch {
        return Some("arch");
    }
    if a.languages != b.languages {
        return Some("languages");
    }
    None
}

impl Bench {
    fn new() -> Bench {
        let med = Medium::new();
        let pkg = msi::Package::create(msi::PackageType::Installer, med.handle()).expect("create");
        Bench { med, pkg, model: Model::created("Installer"), dont_care: Vec::new(), log: Vec::new() }
    }

    fn apply(&mut self, op: &SumOp, rep: &mut Report) -> Result<(), Fail> {
        self.log.push(format!("{:?}", op).chars().take(80).collect());
        let r = guarded(|| apply_sumop(self.pkg.summary_info_mut(), op));
        rep.count("setter_calls");
        if let Err(p) = r {
            return Err(fail(format!("panic/{}", p.signature()), format!("{:?} panicked: {} at {}", op, p.message, p.location)));
        }
        let _ = self.model.apply(&Op::Summary(op.clone()));
        let name = prop_name(op);
        self.dont_care.retain(|d| *d != name);
        // the getters return the same values immediately
        let got = observe_summary(self.pkg.summary_info());
        if let Some(p) = diff_prop(&self.model.summary, &got) {
            return Err(fail(format!("immediate/{}", p), format!("right after {:?}: getters report {:?}, expected {:?}", op, got, self.model.summary)));
        }
        // representability is judged at save time, against the page then in force
        Ok(())
    }

    fn update_dont_care(&mut self) {
        let page = self.model.summary.codepage;
        let s = &self.model.summary;
        let mut dc = Vec::new();
        for (n, v) in [("title", &s.title), ("subject", &s.subject), ("author", &s.author), ("comments", &s.comments), ("creating_app", &s.creating_app), ("arch", &s.arch)] {
            if let Some(x) = v {
                if !cpora::representable(page, x) {
                    dc.push(n);
                }
            }
        }
        self.dont_care = dc;
    }

    /// flush, reopen, compare getters; parse the raw stream independently.
    fn save_check(&mut self, rep: &mut Report) -> Result<(), Fail> {
        self.update_dont_care();
        let r = guarded(|| self.pkg.flush());
        match r {
            Ok(Ok(())) => {}
            Ok(Err(e)) => return Err(fail("flush-error", format!("flush failed: {}", e))),
            Err(p) => return Err(fail(format!("panic/{}", p.signature()), format!("flush panicked: {}", p.message))),
        }
        rep.count("save_points");
        let bytes = self.med.live();
        let r = guarded(|| msi::Package::open(Cursor::new(bytes.clone())).map(|p| observe_summary(p.summary_info())));
        let got = match r {
            Ok(Ok(o)) => o,
            Ok(Err(e)) => return Err(fail("reopen-fails", format!("reopen failed: {} (code page {}, dont_care {:?})", e, self.model.summary.codepage, self.dont_care))),
            Err(p) => return Err(fail(format!("panic/{}", p.signature()), format!("reopen panicked: {}", p.message))),
        };
        let want = masked(self.model.summary.clone(), &self.dont_care);
        let gotm = masked(got.clone(), &self.dont_care);
        if let Some(p) = diff_prop(&want, &gotm) {
            return Err(fail(format!("reopen/{}", p), format!("after save and reopen property {} differs: got {:?}, expected {:?}", p, got, self.model.summary)));
        }
        // independent parser
        let db = fmt_codec::decode(&bytes).map_err(|e| fail("container", e))?;
        let raw = db.summary_raw.ok_or_else(|| fail("stream-missing", "no summary information stream in the saved file"))?;
        let ps = propset_codec::parse(&raw);
        if let Some(p) = ps.problems.first() {
            let class = if p.contains("section size") {
                "section-size"
            } else if p.contains("aligned") {
                "alignment"
            } else if p.contains("offset") || p.contains("beyond") || p.contains("extends") {
                "offset"
            } else {
                "other"
            };
            return Err(fail(format!("stream-malformed/{}", class), format!("independent parser: {} ({} problems; code page {})", p, ps.problems.len(), self.model.summary.codepage)));
        }
        if ps.fmtid != propset_codec::FMTID_SUMMARY {
            return Err(fail("stream-malformed/fmtid", "wrong format identifier"));
        }
        let m = &self.model.summary;
        if ps.codepage() != m.codepage {
            return Err(fail("stream/codepage", format!("stream says code page {}, last set was {}", ps.codepage(), m.codepage)));
        }
        for (id, n, v) in [(2u32, "title", &m.title), (3, "subject", &m.subject), (4, "author", &m.author), (6, "comments", &m.comments), (18, "creating_app", &m.creating_app)] {
            if self.dont_care.contains(&n) {
                continue;
            }
            if &ps.string(id) != v {
                return Err(fail(format!("stream/{}", n), format!("stream property {} ({}) = {:?}, expected {:?}", id, n, ps.string(id), v)));
            }
        }
        if ps.int(15) != m.word_count {
            return Err(fail("stream/word_count", format!("stream word count {:?}, expected {:?}", ps.int(15), m.word_count)));
        }
        let want_ticks = m.creation_time.map(|ns| ((ns - T1601_NS) / 100) as u64);
        if ps.filetime(12) != want_ticks {
            return Err(fail("stream/creation_time", format!("stream FILETIME {:?}, expected {:?}", ps.filetime(12), want_ticks)));
        }
        let want_uuid = m.uuid.as_ref().map(|u| format!("{{{}}}", u.to_uppercase()));
        if ps.string(9) != want_uuid {
            return Err(fail("stream/uuid", format!("stream UUID {:?}, expected {:?}", ps.string(9), want_uuid)));
        }
        if !self.dont_care.contains(&"arch") {
            let t = ps.string(7).unwrap_or_default();
            let (arch, langs) = match t.split_once(';') {
                Some((a, l)) => (a.to_string(), l.to_string()),
                None => (t.clone(), String::new()),
            };
            let got_arch = if arch.is_empty() { None } else { Some(arch) };
            let got_langs: Vec<u16> = langs.split(',').filter_map(|x| x.parse().ok()).collect();
            if got_arch != m.arch || got_langs != m.languages {
                return Err(fail("stream/template", format!("stream template {:?}, expected arch {:?} languages {:?}", t, m.arch, m.languages)));
            }
        }
        for (id, (_, v)) in ps.props.iter() {
            if !matches!(id, 1 | 2 | 3 | 4 | 6 | 7 | 9 | 12 | 15 | 18) {
                return Err(fail("stream/extra-property", format!("unexpected property {} = {:?}", id, v)));
            }
            // (the five free-text properties were compared with the model exactly, NUL characters included)
            if let (PVal::LpStr(b), 7 | 9) = (v, *id) {
                if b.contains(&0) {
                    return Err(fail("stream/embedded-nul", format!("property {} contains an embedded NUL", id)));
                }
            }
        }
        Ok(())
    }
}

fn record(rep: &mut Report, f: Fail, b: &Bench, w: serde_json::Value) {
    let mut w = w;
    w["log_tail"] = json!(b.log.iter().rev().take(12).rev().collect::<Vec<_>>());
    rep.violation(format!("C10/{}", f.clause), f.what, w);
}

fn string_setters(s: &str) -> Vec<SumOp> {
    vec![
        SumOp::SetTitle(s.to_string()),
        SumOp::SetSubject(s.to_string()),
        SumOp::SetAuthor(s.to_string()),
        SumOp::SetComments(s.to_string()),
        SumOp::SetCreatingApp(s.to_string()),
    ]
}

/// For one page: strings with every combination of (ascii count, multi-byte count) in 0..4 x 0..4.
fn residues_for_page(rep: &mut Report, id: i32) {
    let reper = cpora::repertoire(id, 12);
    let mut chars: Vec<char> = Vec::new();
    // pick up to three characters with different (utf-8 length, encoded length) shapes
    let mut shapes = std::collections::BTreeSet::new();
    for c in reper {
        let sh = (c.len_utf8(), cpora::encode_char(id, c).map(|b| b.len()).unwrap_or(0));
        if shapes.insert(sh) {
            chars.push(c);
        }
        if chars.len() >= 3 {
            break;
        }
    }
    if chars.is_empty() {
        chars.push('~');
    }
    for &ch in &chars {
        let mut b = Bench::new();
        let w = json!({"kind": "residues", "page": id, "char": format!("U+{:04X}", ch as u32)});
        let mut res = b.apply(&SumOp::SetCodepage(id), rep);
        'outer: for a in 0..4usize {
            for m in 0..4usize {
                if res.is_err() {
                    break 'outer;
                }
                let s: String = std::iter::repeat('x').take(a).chain(std::iter::repeat(ch).take(m)).collect();
                for (k, op) in string_setters(&s).into_iter().enumerate() {
                    // stagger the lengths over the five properties so the offsets of later values move
                    let op = match (k % 2, op) {
                        (1, SumOp::SetSubject(s)) => SumOp::SetSubject(format!("{}{}", s, ch)),
                        (1, SumOp::SetComments(s)) => SumOp::SetComments(format!("q{}", s)),
                        (_, o) => o,
                    };
                    if res.is_ok() {
                        res = b.apply(&op, rep);
                    }
                }
                if res.is_ok() {
                    res = b.save_check(rep);
                }
                rep.case(Some(fnv(format!("res:{}:{}:{}:{}", id, ch.len_utf8(), a, m).as_bytes())));
            }
        }
        if let Err(f) = res {
            record(rep, f, &b, w);
        }
    }
}

/// Page A -> page B -> UTF-8 for an ordered pair; also B -> A directly.
fn switch_pair(rep: &mut Report, a: i32, bb: i32) {
    let mut b = Bench::new();
    let w = json!({"kind": "switch", "a": a, "b": bb});
    let ra: String = cpora::repertoire(a, 2).into_iter().collect();
    let res = (|| -> Result<(), Fail> {
        b.apply(&SumOp::SetCodepage(a), rep)?;
        b.apply(&SumOp::SetTitle(format!("T {}", ra)), rep)?;
        b.apply(&SumOp::SetAuthor("plain ascii".into()), rep)?;
        b.save_check(rep)?;
        b.apply(&SumOp::SetCodepage(bb), rep)?;
        // the title may no longer be representable in page b: only required not to disturb the rest
        b.save_check(rep)?;
        b.apply(&SumOp::SetCodepage(65001), rep)?;
        b.apply(&SumOp::SetComments(format!("é日😀 {}", ra)), rep)?;
        b.save_check(rep)?;
        b.apply(&SumOp::SetCodepage(a), rep)?;
        b.apply(&SumOp::SetComments("back".into()), rep)?;
        b.save_check(rep)
    })();
    rep.case(Some(fnv(format!("switch:{}:{}", a, bb).as_bytes())));
    rep.count("switch_pairs");
    if let Err(f) = res {
        record(rep, f, &b, w);
    }
}

fn template_orders(rep: &mut Report) {
    let mut seqs: Vec<Vec<SumOp>> = Vec::new();
    // strings that cross the 4 KiB / 8 KiB / 16 KiB / 64 KiB boundaries of the summary stream
    for len in [4000usize, 4090, 4100, 8100, 8150, 8186, 8192, 8200, 8300, 16380, 16400, 66000] {
        seqs.push(vec![SumOp::SetTitle("t".repeat(len / 2)), SumOp::SetComments("c".repeat(len)), SumOp::SetAuthor("after the long ones".into())]);
        seqs.push(vec![SumOp::SetCodepage(932), SumOp::SetComments("漢".repeat(len / 2)), SumOp::SetAuthor("後".into())]);
    }
    seqs.extend(vec![
        vec![SumOp::SetArch("x64".into()), SumOp::SetLanguages(vec![1033, 1036])],
        vec![SumOp::SetLanguages(vec![1033, 1036]), SumOp::SetArch("x64".into())],
        vec![SumOp::SetArch("Intel".into()), SumOp::SetLanguages(vec![0]), SumOp::ClearArch],
        vec![SumOp::SetArch("Intel".into()), SumOp::SetLanguages(vec![9, 65535]), SumOp::ClearLanguages],
        vec![SumOp::SetLanguages(vec![1033]), SumOp::ClearLanguages, SumOp::ClearArch],
        vec![SumOp::ClearArch, SumOp::ClearLanguages],
        vec![SumOp::SetArch("Arm64".into()), SumOp::ClearArch, SumOp::SetArch("x64".into()), SumOp::SetLanguages(vec![]), SumOp::SetLanguages(vec![3084])],
        vec![SumOp::SetUuid("34ab5c53-9b30-4e14-aef0-2c1c7ba826c0".into()), SumOp::ClearUuid, SumOp::SetUuid("00000000-0000-0000-0000-000000000000".into())],
        vec![SumOp::SetWordCount(i32::MIN), SumOp::SetWordCount(i32::MAX), SumOp::ClearWordCount, SumOp::SetWordCount(0)],
        vec![SumOp::SetCreationTime(0), SumOp::SetCreationTime(T1601_NS), SumOp::ClearCreationTime, SumOp::SetCreationTime(1_500_000_000_123_456_700)],
        vec![SumOp::ClearTitle, SumOp::ClearSubject, SumOp::ClearAuthor, SumOp::ClearComments, SumOp::ClearCreatingApp, SumOp::ClearUuid, SumOp::ClearWordCount, SumOp::ClearCreationTime],
        // strings with embedded / trailing NUL characters
        vec![SumOp::SetTitle("ACME\0Corp".into()), SumOp::SetAuthor("\0".into()), SumOp::SetComments("tail\0".into()), SumOp::SetSubject("a\0\0b".into()), SumOp::SetWordCount(2)],
        vec![SumOp::SetCodepage(1252), SumOp::SetTitle("é\0é".into()), SumOp::SetComments("x\0".into()), SumOp::SetCreationTime(1_500_000_000_123_456_700)],
        // strings whose encoded form starts like a byte-order mark
        vec![SumOp::SetTitle("\u{feff}Title".into()), SumOp::SetComments("\u{feff}".into()), SumOp::SetAuthor("a\u{feff}b".into())],
        vec![SumOp::SetCodepage(1252), SumOp::SetTitle("ÿþAb".into()), SumOp::SetSubject("þÿAb".into()), SumOp::SetComments("ï»¿café".into()), SumOp::SetAuthor("ÿþ".into())],
        vec![SumOp::SetCodepage(28591), SumOp::SetTitle("þÿ title".into()), SumOp::SetCodepage(1251), SumOp::SetSubject("яю".into())],
    ]);
    for (i, seq) in seqs.iter().enumerate() {
        let mut b = Bench::new();
        let mut res = Ok(());
        for op in seq {
            res = b.apply(op, rep).and_then(|_| b.save_check(rep));
            if res.is_err() {
                break;
            }
        }
        rep.case(Some(fnv(format!("template:{}", i).as_bytes())));
        rep.count("directed_sequences");
        if let Err(f) = res {
            record(rep, f, &b, json!({"kind": "directed", "index": i}));
        }
    }
}

fn run_random(rep: &mut Report, seed: u64, case: u64) {
    let mut g = Gen::new(Rng::derive(seed, 10, case), GenCfg::default(), case);
    let mut b = Bench::new();
    let n = 5 + g.rng.usize(26);
    let unrepresentable = case % 4 == 3;
    let mut res = Ok(());
    let db_ops = case % 2 == 1;
    for i in 0..n {
        if db_ops && g.rng.chance(1, 4) {
            // a database change BEFORE the next summary edit, in the same flush window
            let r = guarded(|| {
                let name = format!("T{}_{}", case % 1000, i);
                let _ = b.pkg.create_table(name.clone(), vec![msi::Column::build("K").primary_key().int16(), msi::Column::build("V").nullable().string(20)]);
                let _ = b.pkg.insert_rows(msi::Insert::into(name).row(vec![msi::Value::Int(1), msi::Value::from("row")]));
                if i % 2 == 0 {
                    b.pkg.set_database_codepage(msi::CodePage::Utf8);
                }
            });
            b.log.push("(database change)".into());
            rep.count("database_changes_interleaved");
            if let Err(p) = r {
                res = Err(fail(format!("panic/{}", p.signature()), p.message));
                break;
            }
        }
        let mut op = g.summary_op(&b.model);
        if unrepresentable && g.rng.chance(1, 4) {
            // a string the current page cannot hold
            let bad = format!("{} \u{10FFFF}\u{2603}日é", g.token());
            op = match g.rng.below(3) {
                0 => SumOp::SetTitle(bad),
                1 => SumOp::SetComments(bad),
                _ => SumOp::SetAuthor(bad),
            };
        }
        if let (Some(s), false) = (string_of(&op), unrepresentable) {
            if !cpora::representable(b.model.summary.codepage, s) {
                continue;
            }
        }
        res = b.apply(&op, rep);
        if res.is_ok() && (g.rng.chance(1, 4) || i + 1 == n) {
            res = b.save_check(rep);
            if res.is_ok() && g.rng.chance(1, 3) {
                // continue on the reopened package
                let bytes = b.med.live();
                let med = Medium::from_bytes(bytes);
                match guarded(|| msi::Package::open(med.handle())) {
                    Ok(Ok(p)) => {
                        b.pkg = p;
                        b.med = med;
                        // unrepresentable strings were saved with substitutions: the model follows
                        // what the reopened package reports for exactly those properties
                        let o = observe_summary(b.pkg.summary_info());
                        for d in b.dont_care.clone() {
                            match d {
                                "title" => b.model.summary.title = o.title.clone(),
                                "subject" => b.model.summary.subject = o.subject.clone(),
                                "author" => b.model.summary.author = o.author.clone(),
                                "comments" => b.model.summary.comments = o.comments.clone(),
                                "creating_app" => b.model.summary.creating_app = o.creating_app.clone(),
                                "arch" => b.model.summary.arch = o.arch.clone(),
                                _ => {}
                            }
                        }
                    }
                    Ok(Err(e)) => res = Err(fail("reopen-fails", e.to_string())),
                    Err(p) => res = Err(fail(format!("panic/{}", p.signature()), p.message)),
                }
            }
        }
        if res.is_err() {
            break;
        }
    }
    rep.case(Some(fnv(b.log.iter().map(|l| l.split('(').next().unwrap_or("")).collect::<Vec<_>>().join(",").as_bytes())));
    rep.count("random_histories");
    if let Err(f) = res {
        record(rep, f, &b, json!({"kind": "random", "seed": seed, "case": case}));
    }
}

pub fn run(ctx: &Ctx) -> Report {
    let ids = cpora::all_ids();
    if let Some(w) = &ctx.replay {
        let mut rep = Report::new();
        match w["kind"].as_str() {
            Some("residues") => residues_for_page(&mut rep, w["page"].as_i64().unwrap_or(1252) as i32),
            Some("switch") => switch_pair(&mut rep, w["a"].as_i64().unwrap_or(1252) as i32, w["b"].as_i64().unwrap_or(65001) as i32),
            Some("directed") => template_orders(&mut rep),
            Some("random") => run_random(&mut rep, w["seed"].as_u64().unwrap_or(ctx.seed), w["case"].as_u64().unwrap_or(0)),
            _ => rep.inconclusive.push("unknown replay kind".into()),
        }
        return rep;
    }
    let n_random = ctx.budget(10_000, 300_000);
    let seed = ctx.seed;
    let ids_ref = &ids;
    let mut rep = parallel(ctx.threads, |shard, n| {
        let mut rep = Report::new();
        if shard == 0 {
            template_orders(&mut rep);
        }
        for (k, id) in ids_ref.iter().enumerate() {
            if k % n == shard {
                residues_for_page(&mut rep, *id);
                rep.count("pages_residue_swept");
            }
        }
        let mut k = 0;
        for a in ids_ref.iter() {
            for b in ids_ref.iter() {
                k += 1;
                if k % n == shard {
                    switch_pair(&mut rep, *a, *b);
                }
            }
        }
        for case in (shard as u64..n_random).step_by(n) {
            run_random(&mut rep, seed, case);
        }
        rep
    });
    rep.exhaustive_parts.push("all 26 x 26 ordered code-page switch pairs (A -> B -> UTF-8 -> A); for every page all (ascii count, multi-byte count) in 0..4 x 0..4 over up to 3 character shapes".into());
    rep.sample(json!({"kind": "residues", "page": 1252, "strings": ["", "é", "xé", "xxééé"], "oracle": "getters after reopen + independent property-set parser (offsets aligned, section size exact, values equal)"}));
    rep.sample(json!({"kind": "switch", "sequence": "set_codepage(932); title; save; set_codepage(1252); save; set_codepage(65001); comments; save; set_codepage(932); save"}));
    rep.sample(json!({"kind": "random", "note": "5-30 setters/clearers from the 21 kinds, save points with probability 1/4, 1/4 of histories inject unrepresentable strings"}));
    rep
}
