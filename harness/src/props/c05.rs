//! C05 — stored tables always keep unique, ordered keys and valid cells.

use crate::engine::{check_invariants, Monitors, Session, Step};
use crate::gen::GenCfg;
use crate::model::Op;
use crate::panicmon::guarded;
use crate::prng::{fnv, Rng};
use crate::props::hist::{self, HistCfg};
use crate::report::{parallel, Report};
use crate::types::{ColDef, CT, V};
use crate::Ctx;
use serde_json::json;

pub const KEY_LETTERS: [char; 9] = ['a', 'c', 'd', 'g', 'h', 'i', 'm', 'n', 'r'];

fn monitors() -> Monitors {
    Monitors { invariants: true, ..Default::default() }
}

/// Runs concrete steps from a base image (or a fresh package) checking the
/// invariant after every step and every reopen.
pub fn run_steps(rep: &mut Report, ptype: &'static str, base: Option<&[u8]>, steps: &[Step], case: serde_json::Value, fp: u64) {
    let mon = monitors();
    let mut scratch = Report::new();
    let mut s = match base {
        Some(b) => Session::open(b.to_vec()),
        None => Session::create(ptype),
    };
    let mut finding = None;
    match s.as_mut() {
        Err(f) => finding = Some(f.clone()),
        Ok(s) => {
            for st in steps {
                let r = match st {
                    Step::Do(op) => s.apply(op, &mon, &mut scratch),
                    Step::Close(m) => s.close_point(*m, &mut scratch).and_then(|_| check_invariants(s.last.as_ref().unwrap())),
                };
                if let Err(f) = r {
                    s.leak();
                    finding = Some(f);
                    break;
                }
            }
        }
    }
    let ok = hist::successful_mutations(&scratch);
    for (k, v) in scratch.counters {
        rep.add(&k, v);
    }
    rep.case(if ok > 0 { Some(fp) } else { None });
    if let Some(f) = finding {
        hist::record(rep, "C05", &f, ptype, base, steps, &mon, case);
    }
}

fn hist_cfg(n_ops: usize) -> HistCfg {
    HistCfg {
        n_ops,
        gen: GenCfg { max_tables: 3, max_cols: 4, invalid_pct: 10, key_update_pct: 55, streams: false, summary: false, ddl_pct: 8, ..Default::default() },
        mon: monitors(),
        close_pass: None,
        random_close_pct: 15,
        image_at_close: false,
    }
}

fn run_random(seed: u64, case: u64, n_ops: usize, rep: &mut Report) {
    let cfg = hist_cfg(n_ops);
    let out = hist::run_history(Rng::derive(seed, 5, case), case, "Installer", &cfg, rep, None);
    rep.case(if out.ok_ops > 0 { Some(hist::fingerprint(&out.steps)) } else { None });
    let mut finding = out.finding;
    if finding.is_none() {
        // invariant after the final reopen as well
        if let Some(f) = crate::engine::replay_steps("Installer", None, &{
            let mut st = out.steps.clone();
            st.push(Step::Close(crate::engine::CloseMode::Drop));
            st
        }, &cfg.mon) {
            finding = Some(f);
        }
    }
    if let Some(f) = finding {
        hist::record(rep, "C05", &f, "Installer", None, &out.steps, &cfg.mon, json!({"kind": "random", "case": case, "seed": seed, "n_ops": n_ops}));
    }
}

fn keq(col: &str, k: i32) -> crate::exprmodel::MExpr {
    crate::exprmodel::MExpr::Bin(crate::exprmodel::Bin::Eq, Box::new(crate::exprmodel::MExpr::Col(col.into())), Box::new(crate::exprmodel::MExpr::Lit(V::Int(k))))
}

fn directed_steps() -> Vec<(&'static str, Vec<Step>)> {
    use crate::engine::CloseMode::*;
    let sk = vec![ColDef::new("K", CT::Str(32)).key().nullable(), ColDef::new("N", CT::Int32).nullable()];
    let ck = vec![ColDef::new("A", CT::Int16).key(), ColDef::new("B", CT::Str(16)).key(), ColDef::new("V", CT::Int16).nullable()];
    let d = |op: Op| Step::Do(op);
    let create = |n: &str, c: &Vec<ColDef>| d(Op::CreateTable { name: n.into(), cols: c.clone() });
    let ins = |n: &str, rows: Vec<Vec<V>>| d(Op::Insert { table: n.into(), rows });
    let lk = vec![ColDef::new("K", CT::Str(16)).key(), ColDef::new("V", CT::Str(0)).nullable()];
    let long = |n: usize| V::Str("x".repeat(n));
    vec![
        // cells around the 16-bit length escape, with short keys interned after them
        (
            "long-cells-then-short-keys",
            vec![
                create("L", &lk),
                ins("L", vec![vec![V::s("Big1"), long(65_534)], vec![V::s("Big2"), long(65_535)], vec![V::s("Big3"), long(65_536)]]),
                ins("L", vec![vec![V::s("Small"), V::s("t0x1 later")], vec![V::s("Tiny"), V::Null]]),
                Step::Close(IntoInner),
                ins("L", vec![vec![V::s("After"), V::s("t0x2 after reopen")]]),
                Step::Close(Flush),
            ],
        ),
        // the empty string is the format's null: in a column that is not nullable it must not end up stored
        (
            "empty-string-in-non-nullable-column",
            vec![
                create("N", &vec![ColDef::new("K", CT::Int16).key(), ColDef::new("S", CT::Str(8))]),
                ins("N", vec![vec![V::Int(1), V::s("")]]),
                ins("N", vec![vec![V::Int(2), V::s("t0x2")]]),
                d(Op::Update { table: "N".into(), sets: vec![("S".into(), V::s(""))], cond: None }),
                Step::Close(IntoInner),
            ],
        ),
        (
            "empty-string-in-non-nullable-key",
            vec![create("NK", &vec![ColDef::new("K", CT::Str(8)).key(), ColDef::new("V", CT::Int16).nullable()]), ins("NK", vec![vec![V::s(""), V::Int(1)]]), ins("NK", vec![vec![V::s("t0x1"), V::Int(2)]]), Step::Close(Flush)],
        ),
        // a key column assigned twice in one update: the LAST value is the one that is stored
        (
            "key-assigned-twice-last-collides",
            vec![
                create("I", &vec![ColDef::new("K", CT::Int16).key(), ColDef::new("V", CT::Str(8)).nullable()]),
                ins("I", vec![vec![V::Int(1), V::s("t0x1")], vec![V::Int(2), V::s("t0x2")], vec![V::Int(7), V::s("t0x7")]]),
                d(Op::Update { table: "I".into(), sets: vec![("K".into(), V::Int(5)), ("K".into(), V::Int(2))], cond: Some(keq("K", 1)) }),
                Step::Close(IntoInner),
            ],
        ),
        (
            "key-assigned-twice-first-collides",
            vec![
                create("I", &vec![ColDef::new("K", CT::Int16).key(), ColDef::new("V", CT::Str(8)).nullable()]),
                ins("I", vec![vec![V::Int(1), V::s("t0x1")], vec![V::Int(2), V::s("t0x2")], vec![V::Int(7), V::s("t0x7")]]),
                d(Op::Update { table: "I".into(), sets: vec![("K".into(), V::Int(2)), ("K".into(), V::Int(9))], cond: Some(keq("K", 1)) }),
                d(Op::Update { table: "I".into(), sets: vec![("V".into(), V::s("t0x9")), ("K".into(), V::Int(3)), ("V".into(), V::s("t0x8")), ("K".into(), V::Int(7))], cond: Some(keq("K", 2)) }),
                Step::Close(Flush),
            ],
        ),
        // a column with a category AND a width: a value the category accepts but the width does not must not be stored
        (
            "overlong-value-in-category-column",
            vec![
                create(
                    "W",
                    &vec![
                        ColDef::new("K", CT::Int16).key(),
                        ColDef::new("I", CT::Str(8)).cat("Identifier").nullable(),
                        ColDef::new("T", CT::Str(6)).cat("Text").nullable(),
                        ColDef::new("F", CT::Str(5)).cat("Formatted").nullable(),
                        ColDef::new("U", CT::Str(4)).cat("UpperCase").nullable(),
                    ],
                ),
                ins("W", vec![vec![V::Int(1), V::s("Ident_1"), V::s("t0x1"), V::s("[a]"), V::s("UP")]]),
                ins("W", vec![vec![V::Int(2), V::s("Identifier_too_long"), V::Null, V::Null, V::Null]]),
                ins("W", vec![vec![V::Int(3), V::Null, V::s("t0x3 text too long"), V::Null, V::Null]]),
                ins("W", vec![vec![V::Int(4), V::Null, V::Null, V::s("[Property]x"), V::Null]]),
                ins("W", vec![vec![V::Int(5), V::Null, V::Null, V::Null, V::s("UPPER")]]),
                Step::Close(IntoInner),
                d(Op::Update { table: "W".into(), sets: vec![("I".into(), V::s("Ident_123"))], cond: Some(keq("K", 1)) }),
                d(Op::Update { table: "W".into(), sets: vec![("T".into(), V::s("t0x1234"))], cond: None }),
                d(Op::Update { table: "W".into(), sets: vec![("F".into(), V::s("[abcd]"))], cond: None }),
                d(Op::Update { table: "W".into(), sets: vec![("U".into(), V::s("UPPER"))], cond: Some(keq("K", 1)) }),
                Step::Close(Flush),
            ],
        ),
        (
            "null-then-empty-string-key",
            vec![create("S", &sk), ins("S", vec![vec![V::Null, V::Int(1)]]), ins("S", vec![vec![V::s(""), V::Int(2)]]), Step::Close(IntoInner)],
        ),
        (
            "empty-string-then-null-key-one-batch",
            vec![create("S", &sk), ins("S", vec![vec![V::s(""), V::Int(1)], vec![V::Null, V::Int(2)]]), Step::Close(Drop)],
        ),
        (
            "update-key-to-empty-string-next-to-null",
            vec![
                create("S", &sk),
                ins("S", vec![vec![V::Null, V::Int(1)], vec![V::s("t0x1k"), V::Int(2)]]),
                d(Op::Update { table: "S".into(), sets: vec![("K".into(), V::s(""))], cond: None }),
                Step::Close(Flush),
            ],
        ),
        (
            "composite-key-collapse",
            vec![
                create("C", &ck),
                ins("C", vec![vec![V::Int(1), V::s("x"), V::Null], vec![V::Int(2), V::s("x"), V::Int(5)], vec![V::Int(1), V::s("y"), V::Int(6)]]),
                d(Op::Update { table: "C".into(), sets: vec![("A".into(), V::Int(1))], cond: None }),
                Step::Close(IntoInner),
            ],
        ),
        (
            "composite-key-order-reversal",
            vec![
                create("C", &ck),
                ins("C", vec![vec![V::Int(1), V::s("a"), V::Null], vec![V::Int(2), V::s("b"), V::Null], vec![V::Int(3), V::s("c"), V::Null]]),
                d(Op::Update {
                    table: "C".into(),
                    sets: vec![("A".into(), V::Int(0))],
                    cond: Some(crate::exprmodel::MExpr::Bin(
                        crate::exprmodel::Bin::Eq,
                        Box::new(crate::exprmodel::MExpr::Col("B".into())),
                        Box::new(crate::exprmodel::MExpr::Lit(V::s("c"))),
                    )),
                }),
                Step::Close(Drop),
            ],
        ),
    ]
}

/// Keys that the database code page cannot represent: distinct in memory, one key (`?`) in the saved file.
/// Own signatures (not the generic invariant ones), so that a known finding here cannot hide another defect.
fn lossy_codepage_keys(rep: &mut Report) {
    use crate::medium::Medium;
    use crate::observe::read_table;
    let scen: [(&str, i32, bool, [&str; 2]); 4] = [
        ("dupkey-after-reopen/cp1252", 1252, true, ["日", "本"]),
        ("dupkey-after-reopen/cp20127", 20127, true, ["é", "è"]),
        ("dupkey-after-codepage-change/cp1252", 1252, false, ["日", "本"]),
        ("order-after-reopen/cp1252", 1252, true, ["B", "日"]),
    ];
    for (name, page, page_first, keys) in scen {
        let med = Medium::new();
        let r = guarded(|| -> Result<Option<String>, String> {
            let mut p = msi::Package::create(msi::PackageType::Installer, med.handle()).map_err(|e| e.to_string())?;
            let cp = crate::cpora::msi_page(page).ok_or("page")?;
            if page_first {
                p.set_database_codepage(cp);
            }
            p.create_table("L", vec![msi::Column::build("K").primary_key().string(8), msi::Column::build("N").nullable().int16()]).map_err(|e| e.to_string())?;
            for (i, k) in keys.iter().enumerate() {
                if p.insert_rows(msi::Insert::into("L").row(vec![msi::Value::from(*k), msi::Value::Int(i as i32)])).is_err() {
                    // refusing a key that cannot be stored faithfully is fine
                    return Ok(None);
                }
            }
            if !page_first {
                p.set_database_codepage(cp);
            }
            p.into_inner().map_err(|e| e.to_string())?;
            let mut q = msi::Package::open(std::io::Cursor::new(med.live())).map_err(|e| format!("reopen failed: {}", e))?;
            let mut issues = crate::observe::ApiIssues::default();
            let t = read_table(&mut q, "L", &mut issues)?;
            Ok(crate::engine::check_table_invariants("L", &t).err().map(|f| format!("{}: {}", f.clause, f.what)))
        });
        rep.case(Some(fnv(format!("lossy:{}", name).as_bytes())));
        rep.count("lossy_codepage_scenarios");
        let w = json!({"kind": "lossy-codepage", "name": name});
        match r {
            Ok(Ok(None)) => {}
            Ok(Ok(Some(what))) => rep.violation(
                format!("C05/lossy-code-page-keys/{}", name),
                format!("keys {:?} (not representable in code page {}) were accepted as distinct; after save and reopen: {}", keys, page, what),
                w,
            ),
            Ok(Err(e)) => rep.violation(format!("C05/lossy-code-page-keys/{}/error", name), e, w),
            Err(p) => rep.violation(format!("C05/panic/{}", p.signature()), p.message, w),
        }
    }
}

pub fn run(ctx: &Ctx) -> Report {
    let base = hist::alpha_base();
    if let Some(w) = &ctx.replay {
        let mut rep = Report::new();
        match w["kind"].as_str() {
            Some("word") => {
                let word: Vec<char> = w["word"].as_str().unwrap_or("").chars().collect();
                run_steps(&mut rep, "Installer", Some(&base), &hist::expand(&word), w.clone(), 0);
            }
            Some("lossy-codepage") => lossy_codepage_keys(&mut rep),
            Some("directed") => {
                for (name, steps) in directed_steps() {
                    if Some(name) == w["name"].as_str() {
                        run_steps(&mut rep, "Installer", None, &steps, w.clone(), 0);
                    }
                }
            }
            Some("random") => run_random(w["seed"].as_u64().unwrap_or(ctx.seed), w["case"].as_u64().unwrap_or(0), w["n_ops"].as_u64().unwrap_or(60) as usize, &mut rep),
            _ => rep.inconclusive.push("unknown replay kind".into()),
        }
        return rep;
    }
    let depth = if ctx.quick() { 4 } else { 6 };
    let n_random = ctx.budget(4_000, 40_000);
    let seed = ctx.seed;
    let base_ref = &base;
    let mut rep = parallel(ctx.threads, |shard, n| {
        let mut rep = Report::new();
        if shard == 0 {
            for (name, steps) in directed_steps() {
                run_steps(&mut rep, "Installer", None, &steps, json!({"kind": "directed", "name": name}), fnv(name.as_bytes()));
                rep.count("directed_scenarios");
            }
        }
        if shard == 1 % n {
            lossy_codepage_keys(&mut rep);
        }
        hist::for_each_word(&KEY_LETTERS, depth, shard, n, |idx, word| {
            let w: String = word.iter().collect();
            run_steps(&mut rep, "Installer", Some(base_ref), &hist::expand(word), json!({"kind": "word", "word": w, "case": idx}), fnv(w.as_bytes()));
            rep.count("alphabet_sequences");
        });
        for case in (shard as u64..n_random).step_by(n) {
            run_random(seed, case, 40 + (case % 3) as usize * 40, &mut rep);
            rep.count("random_histories");
        }
        rep
    });
    rep.exhaustive_parts.push(format!("all sequences up to depth {} over the 9 key-affecting letters {:?}", depth, KEY_LETTERS));
    rep.sample(json!({"kind": "alphabet word", "word": "ach", "steps": hist::expand(&['a', 'c', 'h']).iter().map(|s| s.to_json()).collect::<Vec<_>>()}));
    let (n, st) = &directed_steps()[0];
    rep.sample(json!({"kind": "directed", "name": n, "steps": st.iter().map(|s| s.to_json()).collect::<Vec<_>>()}));
    rep
}
