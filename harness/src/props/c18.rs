//! C18 — creation times convert to and from Windows timestamps without drift
//! (law checker through `Package::summary_info_mut()`, plus a sample through
//! save + reopen).

use crate::medium::Medium;
use crate::model::ns_to_time;
use crate::observe::time_to_ns;
use crate::panicmon::guarded;
use crate::prng::{fnv, Rng};
use crate::report::{parallel, Report};
use crate::Ctx;
use serde_json::json;
use std::time::{Duration, SystemTime, UNIX_EPOCH};

/// 1601-01-01 relative to the Unix epoch, in ns.
const T1601: i128 = -11_644_473_600 * 1_000_000_000;
/// tick 2^64-1
const TMAX: i128 = T1601 + (u64::MAX as i128) * 100;

type Pkg = msi::Package<crate::medium::Handle>;

fn new_pkg() -> (Medium, Pkg) {
    let m = Medium::new();
    let p = msi::Package::create(msi::PackageType::Installer, m.handle()).expect("create package");
    (m, p)
}

fn conv(pkg: &mut Pkg, t: SystemTime) -> Result<SystemTime, String> {
    guarded(|| {
        pkg.summary_info_mut().set_creation_time(t);
        pkg.summary_info().creation_time()
    })
    .map_err(|p| format!("panic {}", p.signature()))?
    .ok_or_else(|| "creation_time() is None right after set_creation_time".to_string())
}

fn clamp(ns: i128) -> i128 {
    ns.max(T1601).min(TMAX)
}

struct Chk<'a> {
    rep: &'a mut Report,
    pkg: Pkg,
    last: Option<(i128, i128)>,
}

impl<'a> Chk<'a> {
    /// Checks one time given as ns relative to the Unix epoch.  `sorted` means
    /// the caller feeds non-decreasing inputs, so monotonicity is checked
    /// against the previous call.
    fn one(&mut self, ns: i128, sorted: bool, class: &str) {
        let t = ns_to_time(ns);
        let got = match conv(&mut self.pkg, t) {
            Ok(g) => time_to_ns(g),
            Err(e) => {
                self.rep.violation(
                    format!("C18/{}", e),
                    format!("set/get creation time failed for {} ns from the Unix epoch: {}", ns, e),
                    json!({"ns": ns.to_string()}),
                );
                return;
            }
        };
        let in_range = (T1601..=TMAX).contains(&ns);
        if in_range {
            if (got - ns).abs() >= 100 {
                self.rep.violation(
                    format!("C18/drift/{}", class),
                    format!("creation time {} ns is returned as {} ns (drift {} ns >= one 100 ns tick)", ns, got, got - ns),
                    json!({"ns": ns.to_string()}),
                );
            }
        } else {
            let want = clamp(ns);
            if (got - want).abs() >= 100 {
                self.rep.violation(
                    format!("C18/saturation/{}", class),
                    format!("out-of-range creation time {} ns is returned as {} ns, expected the range end {} ns", ns, got, want),
                    json!({"ns": ns.to_string()}),
                );
            }
        }
        // setting a returned time again returns it unchanged
        match conv(&mut self.pkg, ns_to_time(got)) {
            Ok(g2) => {
                let g2 = time_to_ns(g2);
                if g2 != got {
                    self.rep.violation(
                        format!("C18/idempotence/{}", class),
                        format!("returned time {} ns, when set again, is returned as {} ns", got, g2),
                        json!({"ns": ns.to_string()}),
                    );
                }
            }
            Err(e) => self.rep.violation(
                format!("C18/{}", e),
                format!("re-setting returned time {} failed: {}", got, e),
                json!({"ns": ns.to_string()}),
            ),
        }
        if sorted {
            if let Some((pn, pg)) = self.last {
                if pn <= ns && pg > got {
                    self.rep.violation(
                        format!("C18/monotonic/{}", class),
                        format!("t1={} <= t2={} but get(t1)={} > get(t2)={}", pn, ns, pg, got),
                        json!({"ns": ns.to_string(), "prev_ns": pn.to_string()}),
                    );
                }
            }
            self.last = Some((ns, got));
        } else {
            self.last = None;
        }
        // fingerprint: class + magnitude bucket + sub-tick residue + tick parity
        let bucket = 128 - (ns - T1601).unsigned_abs().leading_zeros();
        let fp = fnv(format!("{}:{}:{}:{}", class, bucket, ns.rem_euclid(100), (ns.div_euclid(100)) & 7).as_bytes());
        self.rep.case(Some(fp));
    }

    /// Save + reopen leg: the reopened package reports the same time.
    fn reopen(&mut self, ns: i128) {
        self.reopen_padded(ns, None)
    }

    /// Same, with a comments property of `pad` characters stored in front of the time, which moves the
    /// eight bytes of the stored time to any offset of the summary stream (sector / buffer boundaries).
    fn reopen_padded(&mut self, ns: i128, pad: Option<usize>) {
        let (m, mut p) = new_pkg();
        let r = guarded(|| {
            if let Some(n) = pad {
                p.summary_info_mut().set_comments("c".repeat(n));
            }
            p.summary_info_mut().set_creation_time(ns_to_time(ns));
            let before = p.summary_info().creation_time();
            p.flush().map_err(|e| e.to_string())?;
            let bytes = m.live();
            let q = msi::Package::open(std::io::Cursor::new(bytes)).map_err(|e| e.to_string())?;
            Ok::<_, String>((before, q.summary_info().creation_time()))
        });
        self.rep.count("reopen_samples");
        match r {
            Ok(Ok((a, b))) => {
                if a != b {
                    self.rep.violation(
                        "C18/reopen".to_string(),
                        format!("creation time {} ns (comments of {:?} characters before it) reads {:?} before and {:?} after save+reopen", ns, pad, a.map(time_to_ns), b.map(time_to_ns)),
                        json!({"ns": ns.to_string(), "reopen": true, "pad": pad}),
                    );
                }
            }
            Ok(Err(e)) => self.rep.violation(
                "C18/reopen-error".to_string(),
                format!("save/reopen with creation time {} ns failed: {}", ns, e),
                json!({"ns": ns.to_string(), "reopen": true}),
            ),
            Err(p) => self.rep.violation(
                format!("C18/panic {}", p.signature()),
                format!("save/reopen with creation time {} ns panicked: {}", ns, p.message),
                json!({"ns": ns.to_string(), "reopen": true}),
            ),
        }
    }
}

fn system_time_extremes() -> (i128, i128) {
    // largest / smallest SystemTime found by doubling then bisection
    let mut hi = Duration::from_secs(1);
    while UNIX_EPOCH.checked_add(hi.saturating_mul(2)).is_some() && hi.as_secs() < u64::MAX / 4 {
        hi = hi.saturating_mul(2);
    }
    let mut lo_ok = hi;
    let mut step = hi;
    while step.as_secs() > 0 {
        if let Some(next) = lo_ok.checked_add(step) {
            if UNIX_EPOCH.checked_add(next).is_some() {
                lo_ok = next;
                continue;
            }
        }
        step /= 2;
    }
    let max = lo_ok;
    let mut lo = Duration::from_secs(1);
    while UNIX_EPOCH.checked_sub(lo.saturating_mul(2)).is_some() && lo.as_secs() < u64::MAX / 4 {
        lo = lo.saturating_mul(2);
    }
    let mut ok = lo;
    let mut step = lo;
    while step.as_secs() > 0 {
        if let Some(next) = ok.checked_add(step) {
            if UNIX_EPOCH.checked_sub(next).is_some() {
                ok = next;
                continue;
            }
        }
        step /= 2;
    }
    (-(ok.as_nanos() as i128), max.as_nanos() as i128)
}

/// Save + reopen in the session shapes a package really goes through: the time set after table operations,
/// after an earlier flush, on a reopened package, next to strings in double-byte code pages; closed in all
/// three ways.  The reopened package must report the time that was set last.
fn session_shapes(rep: &mut Report, only: Option<(usize, usize, usize)>) {
    let times: [i128; 3] = [1_700_000_000_123_456_700, -5_000_000_000_000_000_100, 0];
    let pages: [(i32, &str); 10] = [(65001, "日本 é"), (932, "日本語の題名"), (936, "中文标题"), (949, "한국어"), (950, "繁體中文"), (951, "繁體"), (1252, "café"), (1251, "тема"), (65001, "ACME\0Corp"), (1252, "a\0")];
    for shape in 0..7usize {
        for mode in 0..3usize {
            for (ti, &ns) in times.iter().enumerate() {
                if let Some(o) = only {
                    if o != (shape, mode, ti) {
                        continue;
                    }
                }
                let t = ns_to_time(ns);
                let t_old = ns_to_time(1_000_000_000_000_000_000);
                let med = Medium::new();
                let r = guarded(|| -> Result<(Option<SystemTime>, Option<SystemTime>), String> {
                    let mut p = msi::Package::create(msi::PackageType::Installer, med.handle()).map_err(|e| e.to_string())?;
                    let table_op = |p: &mut Pkg, name: &str| -> Result<(), String> {
                        p.create_table(name, vec![msi::Column::build("K").primary_key().int16(), msi::Column::build("V").nullable().string(0)]).map_err(|e| e.to_string())?;
                        p.insert_rows(msi::Insert::into(name).row(vec![msi::Value::Int(1), msi::Value::from("t0x1 v")])).map_err(|e| e.to_string())
                    };
                    match shape {
                        0 => {
                            // table operations first, then the time
                            table_op(&mut p, "A")?;
                            p.summary_info_mut().set_creation_time(t);
                        }
                        1 => {
                            // time, flush, table operation, another time
                            p.summary_info_mut().set_creation_time(t_old);
                            p.flush().map_err(|e| e.to_string())?;
                            table_op(&mut p, "A")?;
                            p.update_rows(msi::Update::table("A").set("V", msi::Value::from("t0x2 w"))).map_err(|e| e.to_string())?;
                            p.summary_info_mut().set_creation_time(t);
                        }
                        2 => {
                            // database code page change, then the time
                            p.set_database_codepage(msi::CodePage::Windows1252);
                            p.summary_info_mut().set_creation_time(t);
                        }
                        3 => {
                            // a reopened package on which only the time is changed
                            p.summary_info_mut().set_creation_time(t_old);
                            table_op(&mut p, "A")?;
                            p.into_inner().map_err(|e| e.to_string())?;
                            p = msi::Package::open(med.handle()).map_err(|e| e.to_string())?;
                            p.summary_info_mut().set_creation_time(t);
                        }
                        4 => {
                            // a reopened package: delete rows, then the time, then a stream
                            table_op(&mut p, "A")?;
                            p.into_inner().map_err(|e| e.to_string())?;
                            p = msi::Package::open(med.handle()).map_err(|e| e.to_string())?;
                            p.delete_rows(msi::Delete::from("A")).map_err(|e| e.to_string())?;
                            p.summary_info_mut().set_creation_time(t);
                            use std::io::Write;
                            let mut w = p.write_stream("S.bin").map_err(|e| e.to_string())?;
                            w.write_all(b"stream").map_err(|e| e.to_string())?;
                            w.flush().map_err(|e| e.to_string())?;
                        }
                        5 | 6 => {
                            // strings of every kind of code page stored in front of the time
                            let (page, text) = pages[(ti * 3 + mode + (shape - 5) * 9) % pages.len()];
                            p.summary_info_mut().set_codepage(crate::cpora::msi_page(page).ok_or("page")?);
                            p.summary_info_mut().set_title(text);
                            p.summary_info_mut().set_author(format!("{}{}", text, text));
                            p.summary_info_mut().set_comments(text.repeat(3));
                            p.summary_info_mut().set_creation_time(t);
                        }
                        _ => unreachable!(),
                    }
                    let before = p.summary_info().creation_time();
                    match mode {
                        0 => {
                            p.flush().map_err(|e| e.to_string())?;
                            std::mem::forget(p);
                        }
                        1 => {
                            p.into_inner().map_err(|e| e.to_string())?;
                        }
                        _ => drop(p),
                    }
                    let q = msi::Package::open(std::io::Cursor::new(med.live())).map_err(|e| format!("reopen failed: {}", e))?;
                    Ok((before, q.summary_info().creation_time()))
                });
                rep.count("session_shape_samples");
                rep.case(Some(fnv(format!("shape:{}:{}:{}", shape, mode, ti).as_bytes())));
                let w = json!({"ns": ns.to_string(), "shape": [shape, mode, ti]});
                let mode_name = ["flush", "into_inner", "drop"][mode];
                match r {
                    Ok(Ok((a, b))) => {
                        if a != b {
                            rep.violation(
                                format!("C18/reopen/session-shape-{}", shape),
                                format!("session shape {} closed by {}: creation time {} ns reads {:?} before and {:?} after save+reopen", shape, mode_name, ns, a.map(time_to_ns), b.map(time_to_ns)),
                                w,
                            );
                        }
                    }
                    Ok(Err(e)) => rep.violation(format!("C18/reopen-error/session-shape-{}", shape), format!("session shape {} closed by {} with creation time {} ns: {}", shape, mode_name, ns, e), w),
                    Err(p) => rep.violation(format!("C18/panic {}", p.signature()), format!("session shape {} closed by {} panicked: {}", shape, mode_name, p.message), w),
                }
            }
        }
    }
}

pub fn run(ctx: &Ctx) -> Report {
    if let Some(w) = &ctx.replay {
        if let Some(s) = w["shape"].as_array() {
            let mut rep = Report::new();
            let g = |i: usize| s.get(i).and_then(|x| x.as_u64()).unwrap_or(0) as usize;
            session_shapes(&mut rep, Some((g(0), g(1), g(2))));
            return rep;
        }
        let mut rep = Report::new();
        let ns: i128 = w["ns"].as_str().and_then(|s| s.parse().ok()).unwrap_or(0);
        let (_m, pkg) = new_pkg();
        let mut c = Chk { rep: &mut rep, pkg, last: None };
        if let Some(p) = w["prev_ns"].as_str().and_then(|s| s.parse::<i128>().ok()) {
            c.one(p, true, "replay");
            c.one(ns, true, "replay");
        } else {
            c.one(ns, false, "replay");
        }
        if w["reopen"].as_bool() == Some(true) {
            c.reopen_padded(ns, w["pad"].as_u64().map(|x| x as usize));
        }
        return rep;
    }
    let budget = ctx.budget(20_000_000, 400_000_000);
    let seed = ctx.seed;
    let (tmin, tmax_sys) = system_time_extremes();
    let mut rep = parallel(ctx.threads, |shard, n| {
        let mut rep = Report::new();
        let (_m, pkg) = new_pkg();
        let mut c = Chk { rep: &mut rep, pkg, last: None };
        // X: every tick within +-300 ticks of the anchors, sub-tick ns 0..199
        // (+-DMAX: the largest distance from 1970 that still fits 64 bits of ticks; beyond the format's range)
        const DMAX: i128 = (u64::MAX as i128) * 100;
        let anchors = [(T1601, "near1601"), (0i128, "near1970"), (TMAX, "nearmax"), (DMAX, "plus-2^64-ticks-from-1970"), (-DMAX, "minus-2^64-ticks-from-1970")];
        let mut k = 0usize;
        for (a, class) in anchors.iter() {
            for tick in -300i128..=300 {
                k += 1;
                if k % n != shard {
                    continue;
                }
                c.last = None;
                for sub in 0..200i128 {
                    c.one(a + tick * 100 + sub, true, class);
                }
            }
        }
        if shard == 1 % n {
            session_shapes(c.rep, None);
        }
        if shard == 0 {
            // extremes of the platform's SystemTime range and far outside the format's range
            for (ns, class) in [
                (tmin, "systime-min"),
                (tmin + 1, "systime-min"),
                (tmax_sys, "systime-max"),
                (tmax_sys - 1, "systime-max"),
                (T1601 - 1, "below-range"),
                (T1601 - 100, "below-range"),
                (T1601 - 1_000_000_000_000_000_000, "below-range"),
                (TMAX + 1, "above-range"),
                (TMAX + 100, "above-range"),
                (TMAX + 1_000_000_000_000_000_000, "above-range"),
                (T1601, "range-end"),
                (TMAX, "range-end"),
                (TMAX - 99, "range-end"),
            ] {
                c.one(ns, false, class);
                c.reopen(ns);
            }
        }
        // the stored time at every offset around the 4 KiB / 8 KiB / 16 KiB boundaries of the summary stream
        {
            let mut k = 0usize;
            for base in [3_800usize, 7_900, 16_100] {
                for pad in base..base + 600 {
                    k += 1;
                    if k % n != shard {
                        continue;
                    }
                    c.reopen_padded(1_700_000_000_123_456_700 + pad as i128 * 100, Some(pad));
                    c.rep.count("reopen_padded_samples");
                }
            }
        }
        // S: random times, sorted in blocks for the monotonicity law
        let mut rng = Rng::derive(seed, 18, shard as u64);
        let per = budget / n as u64;
        let mut block: Vec<i128> = Vec::with_capacity(256);
        let mut done = 0u64;
        let mut reopens = 0;
        while done < per {
            block.clear();
            let mode = rng.below(4);
            for _ in 0..256 {
                let ns = match mode {
                    0 => {
                        // uniform over the whole range
                        let ticks = rng.next_u64() as i128;
                        T1601 + ticks * 100 + rng.below(100) as i128
                    }
                    1 => {
                        // log-uniform distance from an anchor, either side
                        let a = [T1601, 0, TMAX][rng.usize(3)];
                        let mag = rng.below(64);
                        let d = (rng.next_u64() >> (63 - mag)) as i128;
                        if rng.chance(1, 2) {
                            a + d
                        } else {
                            a - d
                        }
                    }
                    2 => {
                        // dense cluster: neighbouring ticks with random sub-tick offsets
                        let base = T1601 + (rng.next_u64() as i128) * 100;
                        base + rng.range(-2000, 2000) as i128
                    }
                    _ => {
                        // "now"-like times 1970..2100
                        (rng.below(4_102_444_800) as i128) * 1_000_000_000 + rng.below(1_000_000_000) as i128
                    }
                };
                block.push(ns.max(tmin).min(tmax_sys));
            }
            block.sort();
            c.last = None;
            for &ns in &block {
                c.one(ns, true, match mode {
                    0 => "uniform",
                    1 => "log-anchor",
                    2 => "cluster",
                    _ => "modern",
                });
            }
            done += 256;
            if reopens < 200 && done % 4096 == 0 {
                c.reopen(block[rng.usize(block.len())]);
                reopens += 1;
            }
        }
        rep
    });
    rep.sample(json!({"time_ns_from_unix_epoch": "0", "law": "|get(set(t)) - t| < 100 ns, set(get(t)) fixed, monotonic"}));
    rep.sample(json!({"time_ns_from_unix_epoch": T1601.to_string(), "what": "1601-01-01, tick 0"}));
    rep.sample(json!({"time_ns_from_unix_epoch": TMAX.to_string(), "what": "tick 2^64-1"}));
    rep.sample(json!({"systime_min_ns": tmin.to_string(), "systime_max_ns": tmax_sys.to_string(), "what": "platform extremes (saturation)"}));
    rep.notes.push("exhaustive part: every tick within +-300 ticks of 1601-01-01, 1970-01-01 and tick 2^64-1, each with sub-tick ns 0..199".into());
    rep
}
