//! C03 — insert, update, delete and select follow the relational model.

use crate::engine::{replay_steps, Finding, Monitors, Session, Step};
use crate::exprmodel as em;
use crate::gen::GenCfg;
use crate::model::Op;
use crate::panicmon::guarded;
use crate::prng::{fnv, Rng};
use crate::props::hist::{self, HistCfg};
use crate::querymodel::{eval_select, Db, MSelect, QErr};
use crate::report::{parallel, Report};
use crate::types::{row_json, V};
use crate::Ctx;
use serde_json::json;

pub const ALPHABET: [char; 16] = ['a', 'b', 'c', 'd', 'e', 'f', 'g', 'h', 'i', 'j', 'k', 'l', 'm', 'n', 'r', 'x'];

pub fn monitors() -> Monitors {
    Monitors { model_eq: true, api_issues: true, ..Default::default() }
}

pub fn model_db(s: &Session) -> Db {
    s.model.tables.iter().map(|(n, t)| (n.clone(), (t.cols.iter().map(|c| c.name.clone()).collect(), t.rows.clone()))).collect()
}

/// Runs one select on the live package and compares with the model's answer.
pub fn check_select(s: &mut Session, q: &MSelect, rep: &mut Report) -> Result<(), Finding> {
    let db = model_db(s);
    let want = eval_select(&db, q);
    if want == Err(QErr::Ambiguous) {
        rep.count("ambiguous_conditions_skipped");
        return Ok(());
    }
    let pkg = match s.pkg.as_mut() {
        Some(p) => p,
        None => return Err(crate::engine::no_package()),
    };
    let got = guarded(|| {
        pkg.select_rows(q.lower()).map(|rows| {
            let cols: Vec<String> = rows.columns().iter().map(|c| c.name().to_string()).collect();
            let len = rows.len();
            let data: Vec<Vec<V>> = rows.map(|r| (0..r.len()).map(|i| V::from_msi(&r[i])).collect()).collect();
            (cols, len, data)
        })
    });
    rep.count("selects_checked");
    let fail = |clause: &str, what: String| Err(Finding { clause: format!("select/{}", clause), what });
    match (got, want) {
        (Err(p), _) => {
            s.leak();
            Err(crate::engine::panic_finding(&format!("select {}", q.show()), &p))
        }
        (Ok(Err(_)), Err(_)) => Ok(()),
        (Ok(Err(e)), Ok(_)) => fail("unexpected-error", format!("{} failed: {}", q.show(), e)),
        (Ok(Ok(_)), Err(e)) => fail("accepted-invalid", format!("{} succeeded although the model reports {:?}", q.show(), e)),
        (Ok(Ok((cols, len, data))), Ok(rel)) => {
            if cols != rel.cols {
                return fail("columns", format!("{}: columns {:?}, model {:?}", q.show(), cols, rel.cols));
            }
            if len != data.len() {
                return fail("len", format!("{}: Rows::len() = {} but {} rows were yielded", q.show(), len, data.len()));
            }
            if data.len() != rel.rows.len() {
                return fail("rowcount", format!("{}: {} rows, model {}", q.show(), data.len(), rel.rows.len()));
            }
            for (i, (a, b)) in data.iter().zip(rel.rows.iter()).enumerate() {
                let an: Vec<V> = a.iter().map(|v| v.norm()).collect();
                let bn: Vec<V> = b.iter().map(|v| v.norm()).collect();
                if an != bn {
                    return fail("rows", format!("{}: row {} is {}, model {}", q.show(), i, row_json(a), row_json(b)));
                }
            }
            Ok(())
        }
    }
}

/// A few random single-table selects (projection + WHERE program) per call.
fn select_oracle(s: &mut Session, rng: &mut Rng, k: usize, rep: &mut Report) -> Result<(), Finding> {
    let names: Vec<String> = s.model.tables.keys().cloned().collect();
    if names.is_empty() {
        return Ok(());
    }
    for _ in 0..k {
        let tn = rng.pick(&names).clone();
        let t = s.model.tables[&tn].clone();
        let cols: Vec<String> = t.cols.iter().map(|c| c.name.clone()).collect();
        let mut q = MSelect::table(&tn);
        if rng.chance(1, 2) {
            let n = 1 + rng.usize(cols.len().min(3));
            q.cols = (0..n).map(|_| rng.pick(&cols).clone()).collect();
        }
        if rng.chance(3, 4) {
            // literals drawn from the table's own cells and the boundary battery
            let mut lits: Vec<V> = vec![V::Null, V::Int(0), V::Int(1), V::Int(-1), V::Int(i32::MAX), V::s(""), V::s("a")];
            for r in t.rows.iter().take(4) {
                lits.extend(r.iter().cloned());
            }
            let d = 1 + rng.usize(3);
            q.cond = Some(em::random_expr(rng, d, &lits, &cols));
        }
        if rng.chance(1, 20) {
            q.cols.push("NoSuchColumn".into());
        }
        check_select(s, &q, rep)?;
    }
    Ok(())
}

fn run_word(base: &[u8], idx: u64, word: &[char], rep: &mut Report) {
    let steps = hist::expand(word);
    let mon = monitors();
    let mut scratch = Report::new();
    let mut s = match Session::open(base.to_vec()) {
        Ok(s) => s,
        Err(f) => {
            hist::record(rep, "C03", &f, "Installer", Some(base), &steps, &mon, json!({"kind": "word", "word": word.iter().collect::<String>(), "case": idx}));
            return;
        }
    };
    let mut finding = None;
    for st in &steps {
        let r = match st {
            Step::Do(op) => s.apply(op, &mon, &mut scratch),
            Step::Close(m) => s.close_point(*m, &mut scratch),
        };
        if let Err(f) = r {
            s.leak();
            finding = Some(f);
            break;
        }
    }
    if finding.is_none() {
        // select oracle on the final state: fixed programs over K and V
        let mut rng = Rng::derive(3, idx, 0);
        if let Err(f) = select_oracle(&mut s, &mut rng, 2, &mut scratch) {
            finding = Some(f);
        }
    }
    let ok = hist::successful_mutations(&scratch);
    for (k, v) in scratch.counters {
        rep.add(&k, v);
    }
    rep.case(if ok > 0 { Some(fnv(word.iter().collect::<String>().as_bytes())) } else { None });
    if let Some(f) = finding {
        hist::record(rep, "C03", &f, "Installer", Some(base), &steps, &mon, json!({"kind": "word", "word": word.iter().collect::<String>(), "case": idx}));
    }
}

fn hist_cfg(n_ops: usize) -> HistCfg {
    HistCfg {
        n_ops,
        gen: GenCfg { max_tables: 4, invalid_pct: 6, big_batch_one_in: 150, ..Default::default() },
        mon: monitors(),
        close_pass: None,
        random_close_pct: 8,
        image_at_close: false,
    }
}

fn run_random(seed: u64, case: u64, n_ops: usize, rep: &mut Report) {
    let rng = Rng::derive(seed, 3, case);
    let cfg = hist_cfg(n_ops);
    let ptype = ["Installer", "Patch", "Transform"][(case % 3) as usize];
    // the select oracle is interleaved by re-running the history in a session we control
    let out = hist::run_history(rng, case, ptype, &cfg, rep, None);
    rep.case(if out.ok_ops > 0 { Some(hist::fingerprint(&out.steps)) } else { None });
    if let Some(f) = out.finding {
        hist::record(rep, "C03", &f, ptype, None, &out.steps, &cfg.mon, json!({"kind": "random", "case": case, "seed": seed, "n_ops": n_ops}));
        return;
    }
    // replay the same steps and query at several points
    let mut s = match Session::create(ptype) {
        Ok(s) => s,
        Err(_) => return,
    };
    let mut scratch = Report::new();
    let mut rng = Rng::derive(seed, 33, case);
    for (i, st) in out.steps.iter().enumerate() {
        let r = match st {
            Step::Do(op) => s.apply(op, &Monitors::default(), &mut scratch),
            Step::Close(m) => s.close_point(*m, &mut scratch),
        };
        if r.is_err() {
            s.leak();
            return;
        }
        if i % 5 == 4 || i + 1 == out.steps.len() {
            if let Err(f) = select_oracle(&mut s, &mut rng, 3, rep) {
                let upto: Vec<Step> = out.steps[..=i].to_vec();
                let mut w = json!({"kind": "random", "case": case, "seed": seed, "n_ops": n_ops, "select_after_step": i});
                w["steps_before_select"] = json!(upto.iter().rev().take(6).rev().map(|s| s.to_json()).collect::<Vec<_>>());
                rep.violation(format!("C03/{}", f.clause), f.what, w);
                s.leak();
                return;
            }
        }
    }
}

/// Directed operation lists on a fresh package (table names the alphabet does not use).
fn directed_ops(rep: &mut Report, only: Option<&str>) {
    use crate::types::{ColDef, CT};
    let kv = vec![ColDef::new("K", CT::Int16).key(), ColDef::new("V", CT::Str(0)).nullable()];
    let mut scen: Vec<(String, Vec<Op>)> = Vec::new();
    // tables named like the streams the format itself uses
    for name in ["_StringPool", "_StringData", "_SummaryInformation", "SummaryInformation", "_Streams", "_Storages", "MsiDigitalSignatureEx"] {
        scen.push((
            format!("table-named-{}", name),
            vec![
                Op::CreateTable { name: "T".into(), cols: kv.clone() },
                Op::Insert { table: "T".into(), rows: vec![vec![V::Int(1), V::s("t0x1 one")]] },
                Op::CreateTable { name: name.into(), cols: kv.clone() },
                Op::Insert { table: name.into(), rows: vec![vec![V::Int(7), V::s("t0x7 seven")]] },
                Op::Update { table: name.into(), sets: vec![("V".into(), V::s("t0x8 eight"))], cond: None },
                Op::Delete { table: name.into(), cond: None },
                Op::DropTable { name: name.into() },
            ],
        ));
    }
    // sessions whose only effect on the string pool is a reference count going up or down
    scen.push((
        "reference-count-only-sessions".into(),
        vec![
            Op::CreateTable { name: "T".into(), cols: kv.clone() },
            Op::CreateTable { name: "U".into(), cols: kv.clone() },
            Op::Insert { table: "T".into(), rows: vec![vec![V::Int(1), V::s("t0x1 shared")], vec![V::Int(2), V::s("t0x2 other")]] },
            Op::Insert { table: "U".into(), rows: vec![vec![V::Int(1), V::s("t0x1 shared")]] },
            Op::Insert { table: "U".into(), rows: vec![vec![V::Int(2), V::s("t0x1 shared")], vec![V::Int(3), V::s("t0x2 other")]] },
            Op::Delete { table: "T".into(), cond: None },
            Op::Update { table: "U".into(), sets: vec![("V".into(), V::s("t0x2 other"))], cond: Some(em::MExpr::Bin(em::Bin::Eq, Box::new(em::MExpr::Col("K".into())), Box::new(em::MExpr::Lit(V::Int(1))))) },
            Op::Delete { table: "U".into(), cond: Some(em::MExpr::Bin(em::Bin::Eq, Box::new(em::MExpr::Col("K".into())), Box::new(em::MExpr::Lit(V::Int(3))))) },
            Op::Insert { table: "T".into(), rows: vec![vec![V::Int(5), V::s("t0x5 new")]] },
        ],
    ));
    // cells around the 16-bit length field of a string-pool entry, with other strings interned after them
    scen.push((
        "cells-of-65534-65535-65536-bytes".into(),
        vec![
            Op::CreateTable { name: "T".into(), cols: kv.clone() },
            Op::CreateTable { name: "U".into(), cols: kv.clone() },
            Op::Insert { table: "T".into(), rows: vec![vec![V::Int(1), V::Str("a".repeat(65_534))], vec![V::Int(2), V::Str("b".repeat(65_535))], vec![V::Int(3), V::Str("c".repeat(65_536))]] },
            Op::Insert { table: "U".into(), rows: vec![vec![V::Int(1), V::s("t0x1 after the long ones")], vec![V::Int(2), V::s("t0x2 too")]] },
            Op::Update { table: "U".into(), sets: vec![("V".into(), V::s("t0x3 changed"))], cond: None },
            Op::Delete { table: "T".into(), cond: Some(em::MExpr::Bin(em::Bin::Eq, Box::new(em::MExpr::Col("K".into())), Box::new(em::MExpr::Lit(V::Int(1))))) },
        ],
    ));
    // the width of a string column counts characters, not bytes of any encoding
    {
        let keqi = |k: i32| Some(em::MExpr::Bin(em::Bin::Eq, Box::new(em::MExpr::Col("K".into())), Box::new(em::MExpr::Lit(V::Int(k)))));
        let narrow = vec![ColDef::new("K", CT::Int16).key(), ColDef::new("S", CT::Str(5)).nullable(), ColDef::new("W", CT::Str(1)).nullable()];
        scen.push((
            "non-ascii-values-at-the-column-width".into(),
            vec![
                Op::CreateTable { name: "N".into(), cols: narrow },
                Op::Insert { table: "N".into(), rows: vec![vec![V::Int(1), V::s("Renée"), V::s("é")]] },
                Op::Insert { table: "N".into(), rows: vec![vec![V::Int(2), V::s("日本語テキ"), V::s("日")], vec![V::Int(3), V::s("ascii"), V::Null]] },
                Op::Insert { table: "N".into(), rows: vec![vec![V::Int(4), V::s("Renée!"), V::Null]] },
                Op::Update { table: "N".into(), sets: vec![("S".into(), V::s("ñandú"))], cond: keqi(3) },
                Op::Update { table: "N".into(), sets: vec![("W".into(), V::s("😀"))], cond: None },
                Op::Update { table: "N".into(), sets: vec![("S".into(), V::s("ñandúes"))], cond: keqi(1) },
                Op::Delete { table: "N".into(), cond: keqi(2) },
            ],
        ));
    }
    let mon = monitors();
    for (name, ops) in scen {
        if only.map(|o| o != name).unwrap_or(false) {
            continue;
        }
        let mut steps: Vec<Step> = Vec::new();
        for (i, op) in ops.iter().enumerate() {
            steps.push(Step::Do(op.clone()));
            if i >= 2 {
                steps.push(Step::Close(crate::engine::CLOSE_MODES[i % 3]));
            }
        }
        let mut scratch = Report::new();
        let mut finding = None;
        match Session::create("Installer") {
            Err(f) => finding = Some(f),
            Ok(mut s) => {
                for st in &steps {
                    let r = match st {
                        Step::Do(op) => s.apply(op, &mon, &mut scratch),
                        Step::Close(m) => s.close_point(*m, &mut scratch),
                    };
                    if let Err(f) = r {
                        s.leak();
                        finding = Some(f);
                        break;
                    }
                }
            }
        }
        for (k, v) in scratch.counters {
            rep.add(&k, v);
        }
        rep.case(Some(fnv(name.as_bytes())));
        rep.count("directed_scenarios");
        if let Some(f) = finding {
            hist::record(rep, "C03", &f, "Installer", None, &steps, &mon, json!({"kind": "directed-ops", "name": name}));
        }
    }
}

fn directed(rep: &mut Report, base: &[u8]) {
    // one scenario per defect class ever seen: key-column update to a colliding constant,
    // order-changing key update, delete-then-insert slot reuse with reopen
    for (i, w) in ["acg", "ach", "abi", "acjra", "aclrc", "abxa", "cgrj", "ab h", "ad", "aerfrk", "acm", "acn", "cmr"].iter().enumerate() {
        let word: Vec<char> = w.chars().filter(|c| *c != ' ').collect();
        run_word(base, 1_000_000 + i as u64, &word, rep);
        rep.count("directed_scenarios");
    }
}

pub fn run(ctx: &Ctx) -> Report {
    let base = hist::alpha_base();
    if let Some(w) = &ctx.replay {
        let mut rep = Report::new();
        match w["kind"].as_str() {
            Some("word") => {
                let word: Vec<char> = w["word"].as_str().unwrap_or("").chars().collect();
                run_word(&base, w["case"].as_u64().unwrap_or(0), &word, &mut rep);
            }
            Some("directed-ops") => directed_ops(&mut rep, w["name"].as_str()),
            Some("random") => run_random(
                w["seed"].as_u64().unwrap_or(ctx.seed),
                w["case"].as_u64().unwrap_or(0),
                w["n_ops"].as_u64().unwrap_or(60) as usize,
                &mut rep,
            ),
            _ => rep.inconclusive.push("unknown replay kind".into()),
        }
        return rep;
    }
    let depth = if ctx.quick() { 4 } else { 5 };
    let n_random = ctx.budget(3_000, 30_000);
    let seed = ctx.seed;
    let base_ref = &base;
    let mut rep = parallel(ctx.threads, |shard, n| {
        let mut rep = Report::new();
        if shard == 0 {
            directed(&mut rep, base_ref);
        }
        if shard == 1 % n {
            directed_ops(&mut rep, None);
        }
        hist::for_each_word(&ALPHABET, depth, shard, n, |idx, word| {
            run_word(base_ref, idx, word, &mut rep);
            rep.count("alphabet_sequences");
        });
        for case in (shard as u64..n_random).step_by(n) {
            let n_ops = 50 + (case % 4) as usize * 50;
            run_random(seed, case, n_ops, &mut rep);
            rep.count("random_histories");
        }
        rep
    });
    rep.exhaustive_parts.push(format!("all operation sequences up to depth {} over the {}-letter alphabet on T(K int16 key, V nullable string)", depth, ALPHABET.len()));
    rep.sample(json!({"kind": "alphabet word", "word": "acg", "steps": hist::expand(&['a', 'c', 'g']).iter().map(|s| s.to_json()).collect::<Vec<_>>()}));
    let mut scratch = Report::new();
    let out = hist::run_history(Rng::derive(seed, 3, 0), 0, "Installer", &hist_cfg(8), &mut scratch, None);
    rep.sample(json!({"kind": "random history (first 8 steps of case 0)", "steps": out.steps.iter().map(|s| s.to_json()).collect::<Vec<_>>()}));
    let _ = replay_steps;
    rep
}
