//! C07 — rows are accepted exactly when every value is valid for its column.
//!
//! Differential monitor against the reference validity predicate at two
//! levels: the pure predicates (`Column::is_valid_value`,
//! `Category::validate`) and the insert/update gate on a live package.

use crate::medium::Medium;
use crate::panicmon::guarded;
use crate::prng::{fnv, Rng};
use crate::refpred::{category_verdict, ref_valid, Verdict};
use crate::report::{parallel, Report};
use crate::types::{cat_to_msi, ColDef, CATEGORIES, CT, V};
use crate::Ctx;
use serde_json::json;

fn words(alphabet: &[char], max_len: usize, shard: usize, n: usize, mut f: impl FnMut(&str)) {
    let a = alphabet.len() as u64;
    let mut idx = 0u64;
    let mut s = String::new();
    for len in 0..=max_len {
        let total = a.pow(len as u32);
        for k in 0..total {
            if (idx % n as u64) as usize == shard {
                s.clear();
                let mut x = k;
                for _ in 0..len {
                    s.push(alphabet[(x % a) as usize]);
                    x /= a;
                }
                f(&s);
            }
            idx += 1;
        }
    }
}

fn check_category(rep: &mut Report, cat: &'static str, s: &str) {
    let c = cat_to_msi(cat);
    let lib = guarded(|| c.validate(s));
    let want = category_verdict(cat, s);
    match lib {
        Err(p) => rep.violation(
            format!("C07/validate-panic/{}/{}", cat, p.signature()),
            format!("Category::{}.validate({:?}) panicked: {}", cat, s, p.message),
            json!({"kind": "category", "category": cat, "string": s}),
        ),
        Ok(b) => {
            if !want.admits(b) {
                rep.violation(
                    format!("C07/category/{}/lib-says-{}", cat, if b { "valid" } else { "invalid" }),
                    format!("Category::{}.validate({:?}) = {} but the documented grammar says {:?}", cat, s, b, want),
                    json!({"kind": "category", "category": cat, "string": s}),
                );
            }
            let class = match want {
                Verdict::Valid => 1u8,
                Verdict::Invalid => 0,
                Verdict::Unspecified => 2,
            };
            // distinct by category, verdict, length and the set of character classes used
            let mut mask = 0u32;
            for ch in s.chars() {
                mask |= 1
                    << match ch {
                        '0'..='9' => 0,
                        'a'..='z' => 1,
                        'A'..='Z' => 2,
                        '.' => 3,
                        ',' => 4,
                        '+' => 5,
                        '-' => 6,
                        '{' | '}' => 7,
                        '%' | '#' => 8,
                        '_' => 9,
                        ' ' => 10,
                        c if !c.is_ascii() => 11,
                        _ => 12,
                    };
            }
            rep.case(Some(fnv(format!("{}:{}:{}:{}:{}", cat, class, s.chars().count().min(40), mask, s.chars().next().map(|c| c as u32).unwrap_or(0)).as_bytes())));
        }
    }
}

fn check_column(rep: &mut Report, col: &ColDef, v: &V) {
    let mc = col.to_msi();
    let lib = guarded(|| mc.is_valid_value(&v.to_msi()));
    let want = ref_valid(col, v);
    match lib {
        Err(p) => rep.violation(
            format!("C07/is_valid_value-panic/{}", p.signature()),
            format!("is_valid_value({}, {}) panicked: {}", col.to_json(), v.to_json(), p.message),
            json!({"kind": "column", "column": col.to_json(), "value": v.to_json()}),
        ),
        Ok(b) => {
            if !want.admits(b) {
                rep.violation(
                    format!("C07/column/{:?}/{}/lib-says-{}", ct_class(col.ty), v.class(), if b { "valid" } else { "invalid" }),
                    format!("column {} .is_valid_value({}) = {} but the reference predicate says {:?}", col.to_json(), v.to_json(), b, want),
                    json!({"kind": "column", "column": col.to_json(), "value": v.to_json()}),
                );
            }
            rep.case(Some(fnv(format!("col:{:?}:{}:{}:{:?}:{}:{:?}", col.ty, col.nullable, col.range.is_some(), col.category, col.enums.len(), value_fp(v)).as_bytes())));
        }
    }
}

fn ct_class(t: CT) -> &'static str {
    match t {
        CT::Int16 => "i16",
        CT::Int32 => "i32",
        CT::Str(_) => "str",
    }
}

fn value_fp(v: &V) -> String {
    match v {
        V::Int(i) => format!("i{}", i),
        V::Str(s) => format!("s{}:{}", s.chars().count(), s.len()),
        V::Null => "n".into(),
    }
}

fn int_boundaries(extra: &[i32]) -> Vec<i32> {
    let mut out = Vec::new();
    let centers: [i64; 7] = [i32::MIN as i64, -32768, -32767, 0, 32767, 32768, i32::MAX as i64];
    for c in centers.iter().chain(extra.iter().map(|x| *x as i64).collect::<Vec<_>>().iter()) {
        for d in -2i64..=2 {
            let x = c + d;
            if x >= i32::MIN as i64 && x <= i32::MAX as i64 {
                out.push(x as i32);
            }
        }
    }
    out.sort();
    out.dedup();
    out
}

fn integer_texts() -> Vec<String> {
    let mut out = Vec::new();
    let mags = [
        "0", "1", "32766", "32767", "32768", "32769", "65535", "65536", "2147483646", "2147483647", "2147483648", "2147483649", "4294967295",
        "4294967296", "99999999999999999999", "",
    ];
    for sign in ["", "+", "-", "--", "+-", " ", "−"] {
        for zeros in ["", "0", "000"] {
            for m in mags.iter() {
                for suffix in ["", " ", "a", ".0", "\u{0661}"] {
                    out.push(format!("{}{}{}{}", sign, zeros, m, suffix));
                }
            }
        }
    }
    out
}

fn guid_mutations() -> Vec<String> {
    let base = "{34AB5C53-9B30-4E14-AEF0-2C1C7BA826C0}";
    let chars: Vec<char> = base.chars().collect();
    let subs = ['0', '9', 'A', 'F', 'a', 'f', 'G', '-', '{', '}', 'é', ' '];
    let mut out = vec![base.to_string()];
    for i in 0..chars.len() {
        for s in subs.iter() {
            let mut c = chars.clone();
            c[i] = *s;
            out.push(c.iter().collect());
        }
        let mut c = chars.clone();
        c.remove(i);
        out.push(c.iter().collect());
        let mut c = chars.clone();
        c.insert(i, '0');
        out.push(c.iter().collect());
    }
    out.push(format!("{}0", base));
    out.push(base.to_lowercase());
    out.push("{34AB5C539B304E14AEF02C1C7BA826C0}".into());
    out.push("{34AB5C539B304E14AEF02C1C7BA826C0}0000".into());
    out.push("urn:uuid:34AB5C53-9B30-4E14-AEF0-2C1C7BA826C0".into());
    // 38-byte strings with multi-byte characters at the slicing boundaries
    out.push(format!("{{é{}}}", "0".repeat(34)));
    out.push(format!("{{{}é}}", "0".repeat(34)));
    out.push(format!("é{}", "0".repeat(36)));
    out.push(format!("{}é", "0".repeat(36)));
    out.push(format!("{{{}日}}", "0".repeat(33)));
    out.push(format!("{{日{}}}", "0".repeat(33)));
    out.push("日".repeat(12) + "ab");
    out
}

fn pure_level(rep: &mut Report, shard: usize, n: usize, thorough: bool, seed: u64) {
    let deep = if thorough { 1 } else { 0 };
    let ident: Vec<char> = "aZ0_.%# é".chars().collect();
    for cat in ["Identifier", "Property", "Cabinet"] {
        words(&ident, 5, shard, n, |s| check_category(rep, cat, s));
    }
    let ver: Vec<char> = "01569.+-".chars().collect();
    words(&ver, 6 + deep, shard, n, |s| check_category(rep, "Version", s));
    let lang: Vec<char> = "0156,+-".chars().collect();
    words(&lang, 6 + deep, shard, n, |s| check_category(rep, "Language", s));
    let case: Vec<char> = "aA1éÉ".chars().collect();
    for cat in ["UpperCase", "LowerCase"] {
        words(&case, 5, shard, n, |s| check_category(rep, cat, s));
    }
    let cab: Vec<char> = "a.#é1 ".chars().collect();
    words(&cab, 6 + deep, shard, n, |s| check_category(rep, "Cabinet", s));
    // long-ish cabinet names around 8.3
    if shard == 0 {
        for base in 0..12usize {
            for ext in 0..6usize {
                for ch in ['a', 'é'] {
                    let b: String = std::iter::repeat(ch).take(base).collect();
                    check_category(rep, "Cabinet", &format!("{}.{}", b, "x".repeat(ext)));
                    check_category(rep, "Cabinet", &b);
                    check_category(rep, "Cabinet", &format!("{}.{}", b, "é".repeat(ext)));
                }
            }
        }
        for t in integer_texts() {
            check_category(rep, "Integer", &t);
            check_category(rep, "DoubleInteger", &t);
            check_category(rep, "Version", &t);
            check_category(rep, "Language", &t);
        }
        for g in guid_mutations() {
            check_category(rep, "GUID", &g);
            check_category(rep, "Identifier", &g);
        }
        // every category accepts/rejects these without panicking
        for (cat, _) in CATEGORIES.iter() {
            for s in ["", " ", "a", "é", "\u{0}", "{}", "%", "#", ".", ",", "-", "+", "1.2.3.4.5", "65536", "日本語", "\u{10FFFF}"] {
                check_category(rep, cat, s);
            }
        }
        // values the library itself builds
        for i in 0..200u32 {
            let mut r = Rng::derive(seed, 7, i as u64);
            let u = uuid::Uuid::from_u128(((r.next_u64() as u128) << 64) | r.next_u64() as u128);
            let v = V::from_msi(&msi::Value::from(u));
            if let V::Str(s) = &v {
                if !msi::Category::Guid.validate(s) || category_verdict("GUID", s) != Verdict::Valid {
                    rep.violation(
                        "C07/value-from-uuid".into(),
                        format!("Value::from({}) = {:?} is not valid for the GUID category", u, s),
                        json!({"kind": "category", "category": "GUID", "string": s}),
                    );
                }
                rep.case(Some(fnv(format!("uuid{}", i % 16).as_bytes())));
            }
            let k = 1 + r.usize(4);
            let langs: Vec<msi::Language> = (0..k).map(|_| msi::Language::from_code(r.below(65536) as u16)).collect();
            let v = V::from_msi(&msi::Value::from(&langs[..]));
            if let V::Str(s) = &v {
                if !msi::Category::Language.validate(s) || category_verdict("Language", s) != Verdict::Valid {
                    rep.violation(
                        "C07/value-from-languages".into(),
                        format!("Value::from(&[Language; {}]) = {:?} is not valid for the Language category", k, s),
                        json!({"kind": "category", "category": "Language", "string": s}),
                    );
                }
                rep.case(Some(fnv(format!("langs{}", k).as_bytes())));
            }
        }
    }
    if shard == 0 {
        // directed lists: only neutral languages, unknown tags, extremes, repeats; and the boundary UUIDs
        let lists: Vec<Vec<u16>> = vec![vec![0], vec![0, 0], vec![0, 0, 0, 0], vec![0, 1033], vec![1033, 0], vec![65535], vec![65535, 0, 1], vec![1024, 2048], vec![1033; 20]];
        for codes in lists {
            let langs: Vec<msi::Language> = codes.iter().map(|c| msi::Language::from_code(*c)).collect();
            let v = V::from_msi(&msi::Value::from(&langs[..]));
            let s = match &v {
                V::Str(s) => s.clone(),
                other => format!("<{}>", other.to_json()),
            };
            if !msi::Category::Language.validate(&s) || category_verdict("Language", &s) != Verdict::Valid {
                rep.violation(
                    "C07/value-from-languages".into(),
                    format!("Value::from(&[Language]) for codes {:?} = {:?} is not valid for the Language category", codes, s),
                    json!({"kind": "category", "category": "Language", "string": s}),
                );
            }
            rep.case(Some(fnv(format!("langs-directed{:?}", codes).as_bytes())));
        }
        for tag in ["tlh", "xx-YY", "und", ""] {
            let langs = [msi::Language::from_tag(tag)];
            if let V::Str(s) = V::from_msi(&msi::Value::from(&langs[..])) {
                if !msi::Category::Language.validate(&s) || category_verdict("Language", &s) != Verdict::Valid {
                    rep.violation(
                        "C07/value-from-languages".into(),
                        format!("Value::from(&[Language::from_tag({:?})]) = {:?} is not valid for the Language category", tag, s),
                        json!({"kind": "category", "category": "Language", "string": s}),
                    );
                }
            }
        }
        for u in [0u128, u128::MAX, 1, 0xffff_ffff_0000_0000_0000_0000_0000_0000] {
            let u = uuid::Uuid::from_u128(u);
            if let V::Str(s) = V::from_msi(&msi::Value::from(u)) {
                if !msi::Category::Guid.validate(&s) || category_verdict("GUID", &s) != Verdict::Valid {
                    rep.violation("C07/value-from-uuid".into(), format!("Value::from({}) = {:?} is not valid for the GUID category", u, s), json!({"kind": "category", "category": "GUID", "string": s}));
                }
            }
        }
    }
    // column level: integers around every boundary, every type, with and without ranges
    let ranges: [Option<(i32, i32)>; 6] = [None, Some((0, 100)), Some((-32767, 32767)), Some((i32::MIN, i32::MAX)), Some((5, 5)), Some((10, -10))];
    let mut k = 0usize;
    for ty in [CT::Int16, CT::Int32, CT::Str(0), CT::Str(3)] {
        for nullable in [false, true] {
            for range in ranges.iter() {
                k += 1;
                if k % n != shard {
                    continue;
                }
                let mut col = ColDef::new("C", ty);
                col.nullable = nullable;
                col.range = *range;
                let extra: Vec<i32> = range.map(|(a, b)| vec![a, b]).unwrap_or_default();
                for i in int_boundaries(&extra) {
                    check_column(rep, &col, &V::Int(i));
                }
                check_column(rep, &col, &V::Null);
                for s in ["", "a", "abc", "abcd", "ééé", "éééé", "日本語", "日本語x", "12"] {
                    check_column(rep, &col, &V::s(s));
                }
            }
        }
    }
    // widths: chars().count() at w-1 / w / w+1 with multi-byte characters; enumerations; categories on columns
    if shard == 1 % n {
        for w in [1usize, 2, 5, 38, 255, 256] {
            for ch in ['a', 'é', '日', '😀'] {
                for len in [w.saturating_sub(1), w, w + 1] {
                    let s: String = std::iter::repeat(ch).take(len).collect();
                    check_column(rep, &ColDef::new("C", CT::Str(w)), &V::Str(s.clone()));
                    check_column(rep, &ColDef::new("C", CT::Str(w)).cat("Text"), &V::Str(s.clone()));
                    check_column(rep, &ColDef::new("C", CT::Str(w)).cat("UpperCase"), &V::Str(s));
                }
            }
        }
        let e = ColDef::new("C", CT::Str(10)).enums(&["Mon", "Tue", "", "a;b"]);
        for s in ["Mon", "mon", "Tue", "", "a;b", "a", "Mon;Tue", "Wed"] {
            check_column(rep, &e, &V::s(s));
            check_column(rep, &e.clone().cat("UpperCase"), &V::s(s));
        }
        let g = ColDef::new("C", CT::Str(38)).cat("GUID");
        for s in guid_mutations() {
            check_column(rep, &g, &V::Str(s));
        }
    }
    // random Unicode strings against every validated category
    let mut rng = Rng::derive(seed, 77, shard as u64);
    let pool: Vec<char> = "aZ09_.%#{}-+, é日\u{0661}\u{FF11}😀\u{0}".chars().collect();
    let rounds = if thorough { 2_000_000 } else { 200_000 };
    let cats = ["Identifier", "Property", "GUID", "Version", "Language", "Cabinet", "Integer", "DoubleInteger", "UpperCase", "LowerCase", "Text", "Formatted"];
    let mut s = String::new();
    for _ in 0..rounds {
        s.clear();
        let len = rng.usize(40);
        for _ in 0..len {
            s.push(*rng.pick(&pool));
        }
        check_category(rep, cats[rng.usize(cats.len())], &s);
    }
}

/// Live gate: a table per column definition; Ok/Err of insert and update vs the reference predicate.
fn gate_level(rep: &mut Report, shard: usize, n: usize, thorough: bool, seed: u64) {
    let m = Medium::new();
    let mut pkg = msi::Package::create(msi::PackageType::Installer, m.handle()).expect("create");
    let mut defs: Vec<ColDef> = Vec::new();
    for (cat, _) in CATEGORIES.iter() {
        defs.push(ColDef::new("V", CT::Str(0)).cat(cat));
    }
    defs.push(ColDef::new("V", CT::Str(3)));
    defs.push(ColDef::new("V", CT::Str(38)).cat("GUID").nullable());
    defs.push(ColDef::new("V", CT::Str(8)).enums(&["Mon", "Tue"]));
    defs.push(ColDef::new("V", CT::Int16));
    defs.push(ColDef::new("V", CT::Int16).range(-5, 5).nullable());
    defs.push(ColDef::new("V", CT::Int32));
    defs.push(ColDef::new("V", CT::Int32).range(0, 1 << 30).nullable());
    // a category AND an enumeration on one column: a value must satisfy both
    defs.push(ColDef::new("V", CT::Str(16)).cat("Identifier").enums(&["Mon", "Tue", "a.b"]));
    defs.push(ColDef::new("V", CT::Str(0)).cat("Text").enums(&["Mon", "hello"]).nullable());
    defs.push(ColDef::new("V", CT::Str(0)).cat("UpperCase").enums(&["HELLO", "ÉCOLE"]));
    // single-value ranges
    defs.push(ColDef::new("V", CT::Int16).range(3, 3));
    defs.push(ColDef::new("V", CT::Int32).range(-7, -7).nullable());
    defs.push(ColDef::new("V", CT::Int16).range(0, 0).nullable());
    // the tested column as part of the primary key, nullable and not
    defs.push(ColDef::new("V", CT::Str(8)).nullable().key());
    defs.push(ColDef::new("V", CT::Int16).nullable().key());
    defs.push(ColDef::new("V", CT::Str(8)).key());
    let mut rng = Rng::derive(seed, 707, shard as u64);
    // every definition twice: gates in the creating session, and gates after the package was saved and reopened
    // (the definition is then the one read back from the catalog)
    let n_defs = defs.len();
    for dj in 0..2 * n_defs {
        let (di, reopened) = (dj % n_defs, dj >= n_defs);
        let def = &defs[di];
        if dj % n != shard {
            continue;
        }
        let tname = format!("G{}{}", di, if reopened { "r" } else { "" });
        let cols = vec![msi::Column::build("K").primary_key().int32(), def.to_msi()];
        if let Err(e) = pkg.create_table(tname.clone(), cols) {
            rep.inconclusive.push(format!("gate table {} could not be created: {}", def.to_json(), e));
            continue;
        }
        if reopened {
            match guarded(move || pkg.into_inner().map(|_| ())) {
                Ok(Ok(())) => {}
                _ => {
                    rep.inconclusive.push("gate package could not be saved".into());
                    return;
                }
            }
            pkg = match guarded(|| msi::Package::open(m.handle())) {
                Ok(Ok(p)) => p,
                _ => {
                    rep.inconclusive.push("gate package could not be reopened".into());
                    return;
                }
            };
            rep.count("gate_tables_after_reopen");
        }
        // candidate values
        let mut vals: Vec<V> = vec![V::Null, V::Int(0), V::Int(5), V::Int(-6), V::Int(2), V::Int(3), V::Int(4), V::Int(-7), V::Int(-8), V::Int(32767), V::Int(32768), V::Int(-32768), V::Int(i32::MIN), V::Int(i32::MAX), V::s(""), V::s("a")];
        for t in integer_texts().into_iter().step_by(7) {
            vals.push(V::Str(t));
        }
        for g in guid_mutations().into_iter().step_by(if thorough { 1 } else { 9 }) {
            vals.push(V::Str(g));
        }
        for s in ["Mon", "mon", "abc", "abcd", "ééé", "éééé", "1.2.3.4", "1.2.3.4.5", "+1.2", "1033,9", "1033,", "#a", "#1", "a.b", "%A", "%", "A%", "_x.y", "9x", "HELLO", "hello", "Hello", "ÉCOLE", "école"] {
            vals.push(V::s(s));
        }
        let alpha: Vec<char> = "aZ0_.%#,+- é".chars().collect();
        let extra = if thorough { 3000 } else { 300 };
        for _ in 0..extra {
            let len = rng.usize(7);
            vals.push(V::Str((0..len).map(|_| *rng.pick(&alpha)).collect()));
        }
        let mut key = 0i32;
        for v in &vals {
            key += 1;
            let want = ref_valid(def, v);
            let r = guarded(|| pkg.insert_rows(msi::Insert::into(tname.clone()).row(vec![msi::Value::Int(key), v.to_msi()])));
            rep.count("gate_inserts");
            let accepted = match r {
                Err(p) => {
                    rep.violation(
                        format!("C07/insert-panic/{}", p.signature()),
                        format!("insert of {} into column {} panicked: {}", v.to_json(), def.to_json(), p.message),
                        json!({"kind": "gate", "column": def.to_json(), "value": v.to_json()}),
                    );
                    return;
                }
                Ok(Ok(())) => true,
                Ok(Err(_)) => false,
            };
            if !want.admits(accepted) {
                rep.violation(
                    format!("C07/insert-gate/{}/{}", def.category.unwrap_or(ct_class(def.ty)), if accepted { "accepted-invalid" } else { "refused-valid" }),
                    format!("insert of {} into column {}: {} but the value is {:?}", v.to_json(), def.to_json(), if accepted { "accepted" } else { "refused" }, want),
                    json!({"kind": "gate", "column": def.to_json(), "value": v.to_json()}),
                );
            }
            rep.case(Some(fnv(format!("gate:{}:{:?}:{}", di, want, value_fp(v)).as_bytes())));
            if key % 150 == 0 {
                let _ = pkg.delete_rows(msi::Delete::from(tname.clone()));
            }
        }
        // the same gate through update, for EVERY candidate value (null first), on a row that exists
        let _ = pkg.delete_rows(msi::Delete::from(tname.clone()));
        // an invalid value is refused whether or not any row is selected: on the empty table ...
        for v in vals.iter().filter(|v| ref_valid(def, v) == Verdict::Invalid).take(40) {
            let r = guarded(|| pkg.update_rows(msi::Update::table(tname.clone()).set("V", v.to_msi())));
            rep.count("gate_updates_no_row");
            if let Ok(Ok(())) = r {
                rep.violation(
                    format!("C07/update-gate-no-row/{}/{}/accepted-invalid", def.category.unwrap_or(ct_class(def.ty)), v.class()),
                    format!("update of an EMPTY table to {} in column {} was accepted although the value is invalid for the column", v.to_json(), def.to_json()),
                    json!({"kind": "gate", "column": def.to_json(), "value": v.to_json()}),
                );
                break;
            }
        }
        let mut have_row = false;
        let mut good: Option<V> = None;
        for v in &vals {
            if ref_valid(def, v) == Verdict::Valid && pkg.insert_rows(msi::Insert::into(tname.clone()).row(vec![msi::Value::Int(1), v.to_msi()])).is_ok() {
                have_row = true;
                good = Some(v.clone());
                break;
            }
        }
        if have_row {
            for v in &vals {
                let want = ref_valid(def, v);
                let r = guarded(|| pkg.update_rows(msi::Update::table(tname.clone()).set("V", v.to_msi()).with(msi::Expr::col("K").eq(msi::Expr::integer(1)))));
                rep.count("gate_updates");
                match r {
                    Err(p) => {
                        rep.violation(
                            format!("C07/update-panic/{}", p.signature()),
                            format!("update to {} in column {} panicked: {}", v.to_json(), def.to_json(), p.message),
                            json!({"kind": "gate", "column": def.to_json(), "value": v.to_json()}),
                        );
                        return;
                    }
                    Ok(res) => {
                        let acc = res.is_ok();
                        if !want.admits(acc) {
                            rep.violation(
                                format!("C07/update-gate/{}/{}/{}", def.category.unwrap_or(ct_class(def.ty)), v.class(), if acc { "accepted-invalid" } else { "refused-valid" }),
                                format!("update to {} in column {}: {} but the value is {:?}", v.to_json(), def.to_json(), if acc { "accepted" } else { "refused" }, want),
                                json!({"kind": "gate", "column": def.to_json(), "value": v.to_json()}),
                            );
                        }
                    }
                }
                // ... and with a condition that selects no row
                if want == Verdict::Invalid {
                    let r = guarded(|| pkg.update_rows(msi::Update::table(tname.clone()).set("V", v.to_msi()).with(msi::Expr::col("K").eq(msi::Expr::integer(987_654)))));
                    rep.count("gate_updates_no_row");
                    if let Ok(Ok(())) = r {
                        rep.violation(
                            format!("C07/update-gate-no-row/{}/{}/accepted-invalid", def.category.unwrap_or(ct_class(def.ty)), v.class()),
                            format!("update (condition selects no row) to {} in column {} was accepted although the value is invalid for the column", v.to_json(), def.to_json()),
                            json!({"kind": "gate", "column": def.to_json(), "value": v.to_json()}),
                        );
                    }
                }
                rep.case(Some(fnv(format!("gateupd:{}:{:?}:{}", di, ref_valid(def, v), value_fp(v)).as_bytes())));
                // the same column assigned twice in one update, one of the two values invalid: refused in either order
                if want == Verdict::Invalid {
                    let g = good.clone().unwrap();
                    for invalid_last in [true, false] {
                        let (a, b) = if invalid_last { (g.to_msi(), v.to_msi()) } else { (v.to_msi(), g.to_msi()) };
                        let r = guarded(|| pkg.update_rows(msi::Update::table(tname.clone()).set("V", a).set("V", b).with(msi::Expr::col("K").eq(msi::Expr::integer(1)))));
                        rep.count("gate_updates_repeated_column");
                        match r {
                            Err(p) => {
                                rep.violation(
                                    format!("C07/update-panic/{}", p.signature()),
                                    format!("update assigning column {} twice ({} and {}) panicked: {}", def.to_json(), g.to_json(), v.to_json(), p.message),
                                    json!({"kind": "gate", "column": def.to_json(), "value": v.to_json()}),
                                );
                                return;
                            }
                            Ok(Ok(())) => rep.violation(
                                format!("C07/update-gate-repeated-column/{}/{}/accepted-invalid", def.category.unwrap_or(ct_class(def.ty)), if invalid_last { "invalid-last" } else { "invalid-first" }),
                                format!("update assigning V twice ({} value {} {}) in column {} was accepted", if invalid_last { "valid first, then invalid" } else { "invalid first, then valid" }, v.to_json(), g.to_json(), def.to_json()),
                                json!({"kind": "gate", "column": def.to_json(), "value": v.to_json()}),
                            ),
                            Ok(Err(_)) => {}
                        }
                    }
                }
            }
        }
        // the same string twice in one row: in a column that takes any string and in the tested column
        // (each value is judged for the column it is in)
        let t2 = format!("{}x", tname);
        let cols2 = vec![msi::Column::build("K").primary_key().int32(), msi::Column::build("A").nullable().string(0), def.to_msi()];
        if pkg.create_table(t2.clone(), cols2).is_ok() {
            let mut key2 = 0i32;
            for v in vals.iter().filter(|v| matches!(v, V::Str(_))) {
                let want = ref_valid(def, v);
                if want == Verdict::Unspecified {
                    continue;
                }
                key2 += 1;
                let r = guarded(|| pkg.insert_rows(msi::Insert::into(t2.clone()).row(vec![msi::Value::Int(key2), v.to_msi(), v.to_msi()])));
                rep.count("gate_inserts_repeated_string");
                match r {
                    Err(p) => {
                        rep.violation(
                            format!("C07/insert-panic/{}", p.signature()),
                            format!("insert of a row holding {} twice (free column, then column {}) panicked: {}", v.to_json(), def.to_json(), p.message),
                            json!({"kind": "gate", "column": def.to_json(), "value": v.to_json()}),
                        );
                        return;
                    }
                    Ok(res) => {
                        if !want.admits(res.is_ok()) {
                            rep.violation(
                                format!("C07/insert-gate-repeated-string/{}/{}", def.category.unwrap_or(ct_class(def.ty)), if res.is_ok() { "accepted-invalid" } else { "refused-valid" }),
                                format!("insert of a row holding {} in a free string column and again in column {}: {} but the value is {:?} for that column", v.to_json(), def.to_json(), if res.is_ok() { "accepted" } else { "refused" }, want),
                                json!({"kind": "gate", "column": def.to_json(), "value": v.to_json()}),
                            );
                        }
                    }
                }
                if key2 % 150 == 0 {
                    let _ = pkg.delete_rows(msi::Delete::from(t2.clone()));
                }
            }
            let _ = pkg.drop_table(&t2);
        }
        // and on key columns: null / invalid values assigned to a nullable and a non-nullable key
        let _ = pkg.drop_table(&tname);
    }
    // arity 0..33 on a three-column table: only arity 3 may succeed
    if shard == 0 {
        let cols = vec![msi::Column::build("A").primary_key().int32(), msi::Column::build("B").nullable().int16(), msi::Column::build("C").nullable().string(4)];
        pkg.create_table("Arity", cols).expect("create Arity");
        for n in 0..=33usize {
            let mut row: Vec<msi::Value> = vec![msi::Value::Int(1000 + n as i32), msi::Value::Null, msi::Value::Null];
            while row.len() < n {
                row.push(msi::Value::Null);
            }
            row.truncate(n);
            let r = guarded(|| pkg.insert_rows(msi::Insert::into("Arity").row(row)));
            rep.count("arity_inserts");
            match r {
                Err(p) => rep.violation(
                    format!("C07/arity-panic/{}", p.signature()),
                    format!("insert with {} values into a 3-column table panicked: {}", n, p.message),
                    json!({"kind": "arity", "n": n}),
                ),
                Ok(res) => {
                    if res.is_ok() != (n == 3) {
                        rep.violation(
                            format!("C07/arity/{}", if res.is_ok() { "accepted" } else { "refused" }),
                            format!("insert with {} values into a 3-column table was {}", n, if res.is_ok() { "accepted" } else { "refused" }),
                            json!({"kind": "arity", "n": n}),
                        );
                    }
                }
            }
            rep.case(Some(fnv(format!("arity{}", n).as_bytes())));
        }
    }
}

pub fn run(ctx: &Ctx) -> Report {
    if let Some(w) = &ctx.replay {
        let mut rep = Report::new();
        match w["kind"].as_str() {
            Some("category") => {
                let cat = CATEGORIES.iter().find(|(n, _)| Some(*n) == w["category"].as_str()).map(|(n, _)| *n);
                match cat {
                    Some(c) => check_category(&mut rep, c, w["string"].as_str().unwrap_or("")),
                    None => rep.inconclusive.push("unknown category in replay".into()),
                }
            }
            _ => {
                // column / gate / arity witnesses: re-run the deterministic lanes
                pure_level(&mut rep, 0, 1, false, ctx.seed);
                gate_level(&mut rep, 0, 1, false, ctx.seed);
            }
        }
        return rep;
    }
    let thorough = !ctx.quick();
    let seed = ctx.seed;
    let mut rep = parallel(ctx.threads, |shard, n| {
        let mut rep = Report::new();
        pure_level(&mut rep, shard, n, thorough, seed);
        gate_level(&mut rep, shard, n, thorough, seed);
        rep
    });
    rep.exhaustive_parts.push("all strings up to length 5-7 over the per-category adversarial alphabets; integers within +-2 of every boundary".into());
    rep.sample(json!({"level": "category", "category": "Version", "string": "1.65536", "reference": format!("{:?}", category_verdict("Version", "1.65536")), "library": msi::Category::Version.validate("1.65536")}));
    rep.sample(json!({"level": "category", "category": "Cabinet", "string": "ééééé.txt", "reference": format!("{:?}", category_verdict("Cabinet", "ééééé.txt"))}));
    rep.sample(json!({"level": "column", "column": ColDef::new("C", CT::Int16).to_json(), "value": -32768, "reference": format!("{:?}", ref_valid(&ColDef::new("C", CT::Int16), &V::Int(-32768)))}));
    rep.sample(json!({"level": "gate", "what": "insert + update of each candidate value into a table whose second column has the definition under test"}));
    rep
}
