//! C08 — saved files are well-formed MSI databases with exact string
//! accounting: the independent decoder runs as an offline checker over the
//! saved image at every prefix of every history.

use crate::engine::{CloseMode, Monitors, Session, Step};
use crate::gen::GenCfg;
use crate::model::Op;
use crate::prng::{fnv, Rng};
use crate::props::hist::{self, HistCfg};
use crate::report::{parallel, Report};
use crate::types::{ColDef, CT, V};
use crate::Ctx;
use serde_json::json;

fn monitors() -> Monitors {
    Monitors { saved_image: true, ..Default::default() }
}

fn hist_cfg(n_ops: usize, lane: usize) -> HistCfg {
    HistCfg {
        n_ops,
        gen: GenCfg { max_tables: 4, invalid_pct: 4, huge_strings: true, ddl_pct: 16, summary: false, big_batch_one_in: 100, ..Default::default() },
        // lane 0: flush-and-snapshot after every op; lane 1: into_inner/drop + reopen at every position
        mon: if lane == 0 { monitors() } else { Monitors::default() },
        close_pass: if lane == 0 { None } else { Some(1) },
        random_close_pct: if lane == 0 { 10 } else { 0 },
        image_at_close: true,
    }
}

fn run_random(seed: u64, case: u64, n_ops: usize, rep: &mut Report) {
    let lane = (case % 3 == 2) as usize;
    let cfg = hist_cfg(n_ops, lane);
    let out = hist::run_history(Rng::derive(seed, 8, case), case, "Installer", &cfg, rep, None);
    rep.case(if out.ok_ops > 0 { Some(hist::fingerprint(&out.steps)) } else { None });
    if let Some(f) = out.finding {
        hist::record(rep, "C08", &f, "Installer", None, &out.steps, &cfg.mon, json!({"kind": "random", "case": case, "seed": seed, "n_ops": n_ops}));
    }
}

pub fn directed() -> Vec<(&'static str, Vec<Step>)> {
    let kv = vec![ColDef::new("K", CT::Int16).key(), ColDef::new("V", CT::Str(0)).nullable()];
    let d = |op: Op| Step::Do(op);
    let create = |n: &str| d(Op::CreateTable { name: n.into(), cols: kv.clone() });
    let ins = |n: &str, rows: Vec<Vec<V>>| d(Op::Insert { table: n.into(), rows });
    let keq = |k: i32| Some(crate::exprmodel::MExpr::Bin(crate::exprmodel::Bin::Eq, Box::new(crate::exprmodel::MExpr::Col("K".into())), Box::new(crate::exprmodel::MExpr::Lit(V::Int(k)))));
    let mut out: Vec<(&'static str, Vec<Step>)> = Vec::new();
    // the whole repertoire of every code page (every character of a single-byte page's upper half): the bytes in
    // the saved file must be the page's own encoding of what the API reports
    for page in crate::cpora::all_ids() {
        let chars = crate::cpora::wide_repertoire(page, 700);
        if chars.is_empty() {
            continue;
        }
        let rows: Vec<Vec<V>> = chars.chunks(24).enumerate().map(|(i, ch)| vec![V::Int(i as i32 + 1), V::Str(format!("t0x{} {}", i + 1, ch.iter().collect::<String>()))]).collect();
        let name: &'static str = Box::leak(format!("whole-repertoire-cp{}", page).into_boxed_str());
        out.push((name, vec![d(Op::SetDbCodepage(page)), create("R"), ins("R", rows), Step::Close(CloseMode::IntoInner)]));
    }
    // a multi-byte character lying across a multiple of the encoder's 1 KiB work buffer (and of 4 KiB / 8 KiB),
    // under UTF-8 and under the multi-byte pages: the saved bytes must be the encoding of what the API reports
    for (page, chars) in [(65001, vec!['é', '日', '😀']), (932, vec!['日']), (936, vec!['中']), (949, vec!['한']), (950, vec!['中'])] {
        let mut rows: Vec<Vec<V>> = Vec::new();
        let mut i = 0;
        for k in [1usize, 2, 3, 4, 8] {
            for &ch in &chars {
                for back in 1..=3usize {
                    i += 1;
                    let prefix = format!("t0x{} ", i);
                    let mut sv = prefix.clone();
                    sv.push_str(&"x".repeat(1024 * k - back - prefix.len()));
                    sv.push(ch);
                    sv.push_str(" tail");
                    rows.push(vec![V::Int(i as i32), V::Str(sv)]);
                }
            }
        }
        let name: &'static str = Box::leak(format!("multi-byte-across-encoder-buffer-cp{}", page).into_boxed_str());
        out.push((name, vec![d(Op::SetDbCodepage(page)), create("M"), ins("M", rows), Step::Close(CloseMode::IntoInner)]));
    }
    out.extend(vec![
        (
            "slot-reuse-after-delete",
            vec![
                create("T"),
                ins("T", vec![vec![V::Int(1), V::s("t0x1 one")], vec![V::Int(2), V::s("t0x2 two")]]),
                d(Op::Delete { table: "T".into(), cond: keq(1) }),
                ins("T", vec![vec![V::Int(3), V::s("t0x3 three")]]),
                Step::Close(CloseMode::IntoInner),
                d(Op::Delete { table: "T".into(), cond: None }),
            ],
        ),
        (
            "update-releases-last-reference",
            vec![
                create("T"),
                ins("T", vec![vec![V::Int(1), V::s("t0x1 only")]]),
                d(Op::Update { table: "T".into(), sets: vec![("V".into(), V::s("t0x2 new"))], cond: None }),
                d(Op::Update { table: "T".into(), sets: vec![("V".into(), V::Null)], cond: None }),
            ],
        ),
        (
            "string-in-two-tables-and-catalog",
            vec![
                create("Shared"),
                create("Other"),
                ins("Shared", vec![vec![V::Int(1), V::s("Shared")], vec![V::Int(2), V::s("N")], vec![V::Int(3), V::s("Identifier")], vec![V::Int(4), V::s("V")]]),
                ins("Other", vec![vec![V::Int(1), V::s("Shared")], vec![V::Int(2), V::s("Other")]]),
                d(Op::Delete { table: "Shared".into(), cond: keq(1) }),
                d(Op::DropTable { name: "Other".into() }),
                d(Op::Delete { table: "Shared".into(), cond: None }),
            ],
        ),
        (
            "drop-table-with-rows",
            vec![
                create("Tt0x9"),
                ins("Tt0x9", vec![vec![V::Int(1), V::s("t0x1 dropped row")], vec![V::Int(2), V::s("t0x2 dropped row")]]),
                d(Op::DropTable { name: "Tt0x9".into() }),
                Step::Close(CloseMode::Drop),
            ],
        ),
        (
            "strings-around-the-64KiB-escape",
            vec![
                create("T"),
                ins("T", vec![vec![V::Int(1), V::Str("a".repeat(65_534))], vec![V::Int(2), V::Str("b".repeat(65_535))], vec![V::Int(3), V::Str("c".repeat(65_536))], vec![V::Int(4), V::s("t0x4 after")]]),
                Step::Close(CloseMode::IntoInner),
                d(Op::Delete { table: "T".into(), cond: keq(2) }),
                ins("T", vec![vec![V::Int(5), V::Str("é".repeat(32_767) + "x")], vec![V::Int(6), V::s("t0x6 after")]]),
            ],
        ),
        (
            "same-string-twice-in-one-row",
            vec![
                d(Op::CreateTable {
                    name: "Twice".into(),
                    cols: vec![ColDef::new("K", CT::Int16).key(), ColDef::new("A", CT::Str(0)).nullable(), ColDef::new("B", CT::Str(0)).nullable(), ColDef::new("Twice", CT::Str(0)).nullable()],
                }),
                ins("Twice", vec![vec![V::Int(1), V::s("t0x1 kalamazoo"), V::s("t0x1 kalamazoo"), V::s("Twice")], vec![V::Int(2), V::s("t0x1 kalamazoo"), V::Null, V::s("t0x2 other")]]),
                d(Op::Delete { table: "Twice".into(), cond: keq(1) }),
                d(Op::Update { table: "Twice".into(), sets: vec![("A".into(), V::s("t0x2 other")), ("B".into(), V::s("t0x2 other"))], cond: None }),
                d(Op::Delete { table: "Twice".into(), cond: None }),
                d(Op::DropTable { name: "Twice".into() }),
            ],
        ),
        (
            "update-to-the-value-already-held",
            vec![
                create("T"),
                ins("T", vec![vec![V::Int(1), V::s("t0x1 zanzibar")], vec![V::Int(2), V::s("t0x2 other")]]),
                d(Op::Update { table: "T".into(), sets: vec![("V".into(), V::s("t0x1 zanzibar"))], cond: None }),
                d(Op::Update { table: "T".into(), sets: vec![("V".into(), V::s("t0x1 zanzibar"))], cond: None }),
                d(Op::Delete { table: "T".into(), cond: None }),
            ],
        ),
        (
            "empty-string-cells",
            vec![create("T"), ins("T", vec![vec![V::Int(1), V::s("")], vec![V::Int(2), V::s("")]]), d(Op::Update { table: "T".into(), sets: vec![("V".into(), V::s(""))], cond: None })],
        ),
    ]);
    out
}

pub fn run_steps(rep: &mut Report, steps: &[Step], case: serde_json::Value, fp: u64) {
    let mon = monitors();
    let mut scratch = Report::new();
    let mut finding = None;
    match Session::create("Installer") {
        Err(f) => finding = Some(f),
        Ok(mut s) => {
            for st in steps {
                let r = match st {
                    Step::Do(op) => s.apply(op, &mon, &mut scratch),
                    Step::Close(m) => s.close_point(*m, &mut scratch).and_then(|_| {
                        let obs = s.observe()?;
                        crate::engine::check_image(&s.med.live(), &obs, &s.dead_tokens)
                    }),
                };
                if let Err(f) = r {
                    s.leak();
                    finding = Some(f);
                    break;
                }
            }
        }
    }
    let ok = hist::successful_mutations(&scratch);
    for (k, v) in scratch.counters {
        rep.add(&k, v);
    }
    rep.case(if ok > 0 { Some(fp) } else { None });
    if let Some(f) = finding {
        hist::record(rep, "C08", &f, "Installer", None, steps, &mon, case);
    }
}

/// More than 65,535 references to one string: a second pool entry must appear at the 16-bit refcount cap.
/// (A table holds at most 65,536 rows, so the references come from two string columns of 32,770 rows each;
/// the scenario is only counted when the library accepted the big insert.)
fn many_references(rep: &mut Report) {
    let cols = vec![ColDef::new("K", CT::Int32).key(), ColDef::new("V", CT::Str(0)), ColDef::new("W", CT::Str(0))];
    let mut steps = vec![Step::Do(Op::CreateTable { name: "Big".into(), cols })];
    // 2 x 32,770 = 65,540 references
    let rows: Vec<Vec<V>> = (0..32_770).map(|i| vec![V::Int(i + 1), V::s("t0x1 shared by all"), V::s("t0x1 shared by all")]).collect();
    steps.push(Step::Do(Op::Insert { table: "Big".into(), rows }));
    // releasing references of the entry that sits at the 16-bit cap (65,535): the count must follow
    let keq = |k: i32| Some(crate::exprmodel::MExpr::Bin(crate::exprmodel::Bin::Eq, Box::new(crate::exprmodel::MExpr::Col("K".into())), Box::new(crate::exprmodel::MExpr::Lit(V::Int(k)))));
    steps.push(Step::Do(Op::Delete { table: "Big".into(), cond: keq(1) }));
    steps.push(Step::Do(Op::Update { table: "Big".into(), sets: vec![("V".into(), V::s("t0x2 on its own"))], cond: keq(2) }));
    let rejected_before = rep.counters.get("call_err_insertN").copied().unwrap_or(0);
    run_steps(rep, &steps, json!({"kind": "many-references"}), fnv(b"many-references"));
    if rep.counters.get("call_err_insertN").copied().unwrap_or(0) != rejected_before {
        rep.inconclusive.push("many-references: the library refused the 32,770-row insert, the refcount cap was not reached".into());
    } else {
        rep.count("refcount_cap_reached");
    }
    rep.count("directed_scenarios");
}

pub fn run(ctx: &Ctx) -> Report {
    if let Some(w) = &ctx.replay {
        let mut rep = Report::new();
        match w["kind"].as_str() {
            Some("directed") => {
                for (n, st) in directed() {
                    if Some(n) == w["name"].as_str() {
                        run_steps(&mut rep, &st, w.clone(), 0);
                    }
                }
            }
            Some("many-references") => many_references(&mut rep),
            Some("capacity") => crate::props::c20::capacity_for("C08", crate::props::c20::which_of(w["limit"].as_str(), w["mode"].as_str()), &mut rep),
            Some("random") => run_random(w["seed"].as_u64().unwrap_or(ctx.seed), w["case"].as_u64().unwrap_or(0), w["n_ops"].as_u64().unwrap_or(30) as usize, &mut rep),
            _ => rep.inconclusive.push("unknown replay kind".into()),
        }
        return rep;
    }
    let n_random = ctx.budget(5_000, 60_000);
    let seed = ctx.seed;
    let thorough = !ctx.quick();
    let mut rep = parallel(ctx.threads, |shard, n| {
        let mut rep = Report::new();
        if shard == 0 {
            for (name, st) in directed() {
                run_steps(&mut rep, &st, json!({"kind": "directed", "name": name}), fnv(name.as_bytes()));
                rep.count("directed_scenarios");
            }
        }
        if shard == 1 % n {
            many_references(&mut rep);
        }
        // the saved file at the string-pool limits (last addressable entry in use; reference counts that only go down)
        if shard == 2 % n {
            crate::props::c20::capacity_for("C08", 1, &mut rep);
        }
        if shard == 3 % n {
            crate::props::c20::capacity_for("C08", 3, &mut rep);
        }
        for case in (shard as u64..n_random).step_by(n) {
            run_random(seed, case, 12 + (case % 4) as usize * 10, &mut rep);
            rep.count("random_histories");
        }
        rep
    });
    let (n, st) = &directed()[3];
    rep.sample(json!({"kind": "directed", "name": n, "steps": st.iter().map(|s| s.to_json()).collect::<Vec<_>>(), "oracle": "independent decoder + refcount == referring cells + no leftover token in _StringData after every step"}));
    let mut scratch = Report::new();
    let out = hist::run_history(Rng::derive(seed, 8, 0), 0, "Installer", &hist_cfg(6, 0), &mut scratch, None);
    rep.sample(json!({"kind": "random history case 0", "steps": out.steps.iter().map(|s| s.to_json()).collect::<Vec<_>>()}));
    rep
}
