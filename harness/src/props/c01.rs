//! C01 — everything written is read back after close and reopen.
//!
//! Close-point monitor: every position of every history is a close point;
//! each history is run three times with the close mode rotated, so every
//! position meets flush / into_inner / drop.

use crate::cpora;
use crate::engine::{CloseMode, Monitors, Session, Step, CLOSE_MODES};
use crate::gen::GenCfg;
use crate::model::{Op, SumOp};
use crate::prng::{fnv, Rng};
use crate::props::hist::{self, HistCfg};
use crate::report::{parallel, Report};
use crate::types::{ColDef, CT, V};
use crate::Ctx;
use serde_json::json;

fn monitors() -> Monitors {
    // the model comparison keeps the close-point oracle honest: "before" must be the written state
    Monitors { model_eq: true, ..Default::default() }
}

fn hist_cfg(n_ops: usize, pass: usize, thorough: bool) -> HistCfg {
    HistCfg {
        n_ops,
        gen: GenCfg { max_cols: if thorough { 12 } else { 6 }, huge_strings: true, invalid_pct: 3, big_batch_one_in: 90, ..Default::default() },
        mon: monitors(),
        close_pass: Some(pass),
        random_close_pct: 0,
        image_at_close: false,
    }
}

fn run_random(seed: u64, case: u64, n_ops: usize, thorough: bool, rep: &mut Report) {
    let ptype = ["Installer", "Patch", "Transform"][(case % 3) as usize];
    // pass 0 generates the operations; passes 1 and 2 replay them with rotated close modes
    let cfg0 = hist_cfg(n_ops, 0, thorough);
    let out0 = hist::run_history(Rng::derive(seed, 1, case), case, ptype, &cfg0, rep, None);
    rep.case(if out0.ok_ops > 0 { Some(hist::fingerprint(&out0.steps)) } else { None });
    if let Some(f) = out0.finding {
        hist::record(rep, "C01", &f, ptype, None, &out0.steps, &cfg0.mon, json!({"kind": "random", "case": case, "seed": seed, "n_ops": n_ops, "pass": 0}));
        return;
    }
    let ops: Vec<Op> = out0
        .steps
        .iter()
        .filter_map(|s| match s {
            Step::Do(op) => Some(op.clone()),
            _ => None,
        })
        .collect();
    for pass in 1..3 {
        let cfg = hist_cfg(ops.len(), pass, thorough);
        let out = hist::run_history(Rng::derive(seed, 1, case), case, ptype, &cfg, rep, Some(&ops));
        rep.case(if out.ok_ops > 0 { Some(hist::fingerprint(&out.steps)) } else { None });
        if let Some(f) = out.finding {
            hist::record(rep, "C01", &f, ptype, None, &out.steps, &cfg.mon, json!({"kind": "random", "case": case, "seed": seed, "n_ops": n_ops, "pass": pass}));
            return;
        }
    }
}

fn d(op: Op) -> Step {
    Step::Do(op)
}

/// Directed scenarios: (name, package type, steps).  Every scenario is run
/// with each of the three close modes appended after each step.
pub fn directed() -> Vec<(String, &'static str, Vec<Op>)> {
    let mut out: Vec<(String, &'static str, Vec<Op>)> = Vec::new();
    let kv = vec![ColDef::new("K", CT::Int16).key(), ColDef::new("V", CT::Str(0)).nullable()];
    let create = |n: &str, c: &Vec<ColDef>| Op::CreateTable { name: n.into(), cols: c.clone() };
    let ins = |n: &str, rows: Vec<Vec<V>>| Op::Insert { table: n.into(), rows };
    out.push(("empty-string-cell".into(), "Installer", vec![create("T", &kv), ins("T", vec![vec![V::Int(1), V::s("")]])]));
    out.push((
        "empty-string-then-more".into(),
        "Installer",
        vec![create("T", &kv), ins("T", vec![vec![V::Int(1), V::s("")], vec![V::Int(2), V::s("t0x1z")]]), ins("T", vec![vec![V::Int(3), V::s("")]])],
    ));
    out.push((
        "update-to-empty-string".into(),
        "Patch",
        vec![
            create("T", &kv),
            ins("T", vec![vec![V::Int(1), V::s("t0x1a")]]),
            Op::Update { table: "T".into(), sets: vec![("V".into(), V::s(""))], cond: None },
        ],
    ));
    // strings whose UTF-8 length and encoded length lie on different sides of the 64 KiB escape
    for (name, page, ch, n) in [("long-e-acute-cp1252", 1252, "é", 40_000usize), ("long-e-acute-cp1252-exact", 1252, "é", 65_535), ("long-kanji-cp932", 932, "漢", 30_000), ("long-kanji-utf8", 65001, "漢", 21_845)] {
        out.push((
            name.into(),
            "Installer",
            vec![
                Op::SetDbCodepage(page),
                create("T", &kv),
                ins("T", vec![vec![V::Int(1), V::Str(ch.repeat(n))], vec![V::Int(2), V::s("t0x2 after the long one")]]),
                create("Later", &kv),
                ins("Later", vec![vec![V::Int(1), V::s("t0x3 z")]]),
            ],
        ));
    }
    // columns one and two characters wide
    {
        let narrow = vec![ColDef::new("K", CT::Int16).key(), ColDef::new("F", CT::Str(1)).nullable(), ColDef::new("G", CT::Str(2)).nullable(), ColDef::new("H", CT::Str(1)).key()];
        out.push(("narrow-string-columns".into(), "Installer", vec![create("Narrow", &narrow), ins("Narrow", vec![vec![V::Int(1), V::s("Y"), V::s("ab"), V::s("k")], vec![V::Int(2), V::Null, V::s("é"), V::s("é")]])]));
    }
    // the widest table the library accepts
    {
        let wide: Vec<ColDef> = (0..32).map(|i| if i == 0 { ColDef::new("K", CT::Int16).key() } else if i % 2 == 0 { ColDef::new(&format!("S{}", i), CT::Str(0)).nullable() } else { ColDef::new(&format!("N{}", i), CT::Int32).nullable() }).collect();
        let row: Vec<V> = (0..32).map(|i| if i == 0 { V::Int(1) } else if i % 2 == 0 { V::Str(format!("t0x{}w", i)) } else { V::Int(i) }).collect();
        out.push(("32-columns".into(), "Installer", vec![create("Wide", &wide), ins("Wide", vec![row])]));
    }
    // one string shared by cells of two tables and a catalog table
    out.push((
        "shared-string-two-tables-and-catalog".into(),
        "Installer",
        vec![
            create("Shared", &kv),
            create("Other", &kv),
            ins("Shared", vec![vec![V::Int(1), V::s("Shared")], vec![V::Int(2), V::s("N")], vec![V::Int(3), V::s("Identifier")]]),
            ins("Other", vec![vec![V::Int(1), V::s("Shared")], vec![V::Int(2), V::s("Other")], vec![V::Int(3), V::s("K")]]),
            Op::Delete { table: "Shared".into(), cond: None },
        ],
    ));
    out.push((
        "long-strings".into(),
        "Transform",
        vec![
            create("T", &kv),
            ins("T", vec![vec![V::Int(1), V::Str("x".repeat(70_000))], vec![V::Int(2), V::Str("é".repeat(66_000))], vec![V::Int(3), V::Str("y".repeat(65_535))], vec![V::Int(4), V::Str("z".repeat(65_536))]]),
        ],
    ));
    let ints = vec![
        ColDef::new("A", CT::Int16).key(),
        ColDef::new("B", CT::Int32).key(),
        ColDef::new("C", CT::Int16).nullable(),
        ColDef::new("D", CT::Int32).nullable(),
    ];
    let mut rows = Vec::new();
    for (i, a) in [1, -1, 32767, -32767, 0].iter().enumerate() {
        for b in [1, -1, i32::MAX, -i32::MAX, 0, 32768, -32768] {
            rows.push(vec![V::Int(*a), V::Int(b), if i % 2 == 0 { V::Int(-*a) } else { V::Null }, V::Int(-b)]);
        }
    }
    out.push(("integer-boundaries".into(), "Installer", vec![create("I", &ints), ins("I", rows)]));
    for pt in ["Installer", "Patch", "Transform"] {
        out.push((format!("package-type-{}", pt), pt, vec![Op::Summary(SumOp::SetAuthor("t0x1 author".into()))]));
    }
    // each of the 26 code pages as database and summary code page, strings from that page's repertoire
    for id in cpora::all_ids() {
        let rep: String = cpora::repertoire(id, 6).into_iter().collect();
        let s1 = format!("t0x1 {}", rep);
        let s2 = format!("{}{}", rep, "t0x2");
        out.push((
            format!("codepage-{}", id),
            "Installer",
            vec![
                Op::SetDbCodepage(id),
                Op::Summary(SumOp::SetCodepage(id)),
                create("T", &kv),
                ins("T", vec![vec![V::Int(1), V::Str(s1.clone())], vec![V::Int(2), V::Str(s2.clone())]]),
                Op::Summary(SumOp::SetTitle(s1.clone())),
                Op::Summary(SumOp::SetComments(s2.clone())),
                Op::Summary(SumOp::SetSubject(rep.clone())),
                Op::WriteStream { name: "Blob".into(), data: s1.as_bytes().to_vec() },
            ],
        ));
    }
    // multi-byte summary strings under single-byte pages: every residue of encoded/UTF-8 length mod 4
    for (n, page, ch) in [("sum-1252", 1252, 'é'), ("sum-1251", 1251, 'Ж'), ("sum-932", 932, '日')] {
        let mut ops = vec![Op::Summary(SumOp::SetCodepage(page))];
        for k in 0..5 {
            let s: String = std::iter::repeat(ch).take(k).chain("ab".chars()).collect();
            ops.push(Op::Summary(SumOp::SetTitle(s.clone())));
            ops.push(Op::Summary(SumOp::SetAuthor(format!("{}x", s))));
        }
        out.push((n.into(), "Installer", ops));
    }
    out.push((
        "bom-like-strings-utf8".into(),
        "Installer",
        vec![create("T", &kv), ins("T", vec![vec![V::Int(1), V::s("\u{feff}cell")], vec![V::Int(2), V::s("\u{feff}")], vec![V::Int(3), V::s("x\u{feff}y")]]), Op::Summary(SumOp::SetTitle("\u{feff}Title".into()))],
    ));
    out.push((
        "bom-like-strings-1252".into(),
        "Installer",
        vec![
            Op::SetDbCodepage(1252),
            Op::Summary(SumOp::SetCodepage(1252)),
            create("T", &kv),
            ins("T", vec![vec![V::Int(1), V::s("ÿþAb")], vec![V::Int(2), V::s("þÿAb")], vec![V::Int(3), V::s("ï»¿café")]]),
            Op::Summary(SumOp::SetComments("ÿþ comments".into())),
        ],
    ));
    out.push((
        "streams-and-drop-table".into(),
        "Installer",
        vec![
            create("T", &kv),
            ins("T", vec![vec![V::Int(1), V::s("t0x1a")]]),
            Op::WriteStream { name: "Icon.t0x2".into(), data: vec![7u8; 5000] },
            Op::WriteStream { name: "Icon.t0x2".into(), data: vec![8u8; 10] },
            Op::DropTable { name: "T".into() },
            Op::RemoveStream { name: "Icon.t0x2".into() },
        ],
    ));
    out
}

/// Scenarios in which SEVERAL operations share one save interval (the close comes only where written; `None`
/// in the list stands for a close, whose mode rotates over the passes).
pub fn directed_sessions() -> Vec<(String, Vec<Option<Op>>)> {
    let kv = vec![ColDef::new("K", CT::Int16).key(), ColDef::new("V", CT::Str(0)).nullable()];
    let create = |n: &str| Some(Op::CreateTable { name: n.into(), cols: kv.clone() });
    let ins = |n: &str, k: i32, v: &str| Some(Op::Insert { table: n.into(), rows: vec![vec![V::Int(k), V::s(v)]] });
    let mut out = Vec::new();
    // a string change followed, in the same interval, by setting the code page the database already has
    for page in [65001, 1252] {
        out.push((
            format!("insert-then-same-codepage-{}", page),
            vec![create("T"), ins("T", 1, "t0x1 a"), Some(Op::SetDbCodepage(page)), None, ins("T", 2, "t0x2 b"), ins("T", 3, "t0x3 c"), Some(Op::SetDbCodepage(page)), None],
        ));
        out.push((
            format!("delete-then-same-codepage-{}", page),
            vec![
                create("T"),
                ins("T", 1, "t0x1 a"),
                ins("T", 2, "t0x2 b"),
                Some(Op::SetDbCodepage(page)),
                None,
                Some(Op::Delete { table: "T".into(), cond: None }),
                Some(Op::SetDbCodepage(page)),
                None,
                ins("T", 5, "t0x5 e"),
                None,
            ],
        ));
        out.push((
            format!("update-then-same-codepage-{}", page),
            vec![
                create("T"),
                ins("T", 1, "t0x1 a"),
                Some(Op::SetDbCodepage(page)),
                None,
                Some(Op::Update { table: "T".into(), sets: vec![("V".into(), V::s("t0x9 z"))], cond: None }),
                Some(Op::SetDbCodepage(page)),
                Some(Op::Summary(crate::model::SumOp::SetWordCount(2))),
                None,
            ],
        ));
    }
    // a table change followed by a summary change and vice versa
    out.push(("table-then-summary".into(), vec![create("T"), ins("T", 1, "t0x1 a"), Some(Op::Summary(crate::model::SumOp::SetTitle("t0x7 title".into()))), None, ins("T", 2, "t0x2 b"), Some(Op::Summary(crate::model::SumOp::SetAuthor("t0x8 author".into()))), None]));
    out.push(("summary-then-table".into(), vec![Some(Op::Summary(crate::model::SumOp::SetTitle("t0x7 title".into()))), create("T"), None, Some(Op::Summary(crate::model::SumOp::SetAuthor("t0x8 author".into()))), ins("T", 1, "t0x1 a"), None]));
    out.push(("stream-then-table-then-summary".into(), vec![Some(Op::WriteStream { name: "S.bin".into(), data: vec![5; 300] }), create("T"), ins("T", 1, "t0x1 a"), Some(Op::Summary(crate::model::SumOp::SetWordCount(4))), None, Some(Op::RemoveStream { name: "S.bin".into() }), Some(Op::Summary(crate::model::SumOp::SetWordCount(2))), None]));
    out
}

fn run_directed_session(rep: &mut Report, name: &str, items: &[Option<Op>]) {
    let mon = monitors();
    for pass in 0..3 {
        let mut steps = Vec::new();
        let mut k = 0;
        for it in items {
            match it {
                Some(op) => steps.push(d(op.clone())),
                None => {
                    steps.push(Step::Close(CLOSE_MODES[(k + pass) % 3]));
                    k += 1;
                }
            }
        }
        let mut scratch = Report::new();
        let mut finding = None;
        match Session::create("Installer") {
            Err(f) => finding = Some(f),
            Ok(mut s) => {
                for st in &steps {
                    let r = match st {
                        Step::Do(op) => s.apply(op, &mon, &mut scratch),
                        Step::Close(m) => s.close_point(*m, &mut scratch),
                    };
                    if let Err(f) = r {
                        s.leak();
                        finding = Some(f);
                        break;
                    }
                }
            }
        }
        for (k, v) in scratch.counters {
            rep.add(&k, v);
        }
        rep.case(Some(fnv(format!("session:{}:{}", name, pass).as_bytes())));
        if let Some(f) = finding {
            hist::record(rep, "C01", &f, "Installer", None, &steps, &mon, json!({"kind": "directed-session", "name": name, "pass": pass}));
            return;
        }
    }
    rep.count("directed_sessions");
}

fn run_directed(rep: &mut Report, name: &str, ptype: &'static str, ops: &[Op]) {
    let mon = monitors();
    for pass in 0..3 {
        let mut steps = Vec::new();
        for (i, op) in ops.iter().enumerate() {
            steps.push(d(op.clone()));
            steps.push(Step::Close(CLOSE_MODES[(i + pass) % 3]));
        }
        let mut scratch = Report::new();
        let mut finding = None;
        match Session::create(ptype) {
            Err(f) => finding = Some(f),
            Ok(mut s) => {
                for st in &steps {
                    let r = match st {
                        Step::Do(op) => s.apply(op, &mon, &mut scratch),
                        Step::Close(m) => s.close_point(*m, &mut scratch),
                    };
                    if let Err(f) = r {
                        s.leak();
                        finding = Some(f);
                        break;
                    }
                }
            }
        }
        let ok = hist::successful_mutations(&scratch);
        for (k, v) in scratch.counters {
            rep.add(&k, v);
        }
        rep.case(if ok > 0 { Some(fnv(format!("{}:{}", name, pass).as_bytes())) } else { None });
        if let Some(f) = finding {
            hist::record(rep, "C01", &f, ptype, None, &steps, &mon, json!({"kind": "directed", "name": name, "pass": pass}));
            return;
        }
    }
    rep.count("directed_scenarios");
}

pub fn run(ctx: &Ctx) -> Report {
    if let Some(w) = &ctx.replay {
        let mut rep = Report::new();
        match w["kind"].as_str() {
            Some("directed") => {
                for (n, pt, ops) in directed() {
                    if Some(n.as_str()) == w["name"].as_str() {
                        run_directed(&mut rep, &n, pt, &ops);
                    }
                }
            }
            Some("directed-session") => {
                for (n, items) in directed_sessions() {
                    if Some(n.as_str()) == w["name"].as_str() {
                        run_directed_session(&mut rep, &n, &items);
                    }
                }
            }
            Some("random") => run_random(
                w["seed"].as_u64().unwrap_or(ctx.seed),
                w["case"].as_u64().unwrap_or(0),
                w["n_ops"].as_u64().unwrap_or(12) as usize,
                ctx.tier == crate::Tier::Thorough,
                &mut rep,
            ),
            _ => rep.inconclusive.push("unknown replay kind".into()),
        }
        return rep;
    }
    let thorough = !ctx.quick();
    let n_random = ctx.budget(3_000, 40_000);
    let seed = ctx.seed;
    let dir = directed();
    let dir_ref = &dir;
    let mut rep = parallel(ctx.threads, |shard, n| {
        let mut rep = Report::new();
        for (k, (name, pt, ops)) in dir_ref.iter().enumerate() {
            if k % n == shard {
                run_directed(&mut rep, name, pt, ops);
            }
        }
        for (k, (name, items)) in directed_sessions().iter().enumerate() {
            if (k + 3) % n == shard {
                run_directed_session(&mut rep, name, items);
            }
        }
        for case in (shard as u64..n_random).step_by(n) {
            let n_ops = if thorough { 10 + (case % 4) as usize * 10 } else { 8 + (case % 3) as usize * 4 };
            run_random(seed, case, n_ops, thorough, &mut rep);
            rep.count("random_histories");
        }
        rep
    });
    rep.sample(json!({"kind": "directed", "name": "empty-string-cell", "ops": dir[0].2.iter().map(|o| o.to_json()).collect::<Vec<_>>(), "close": "after every op, mode (i + pass) mod 3, passes 0..2"}));
    let mut scratch = Report::new();
    let out = hist::run_history(Rng::derive(seed, 1, 0), 0, "Installer", &hist_cfg(6, 0, false), &mut scratch, None);
    rep.sample(json!({"kind": "random history case 0, pass 0", "steps": out.steps.iter().map(|s| s.to_json()).collect::<Vec<_>>()}));
    let _ = CloseMode::Flush;
    rep
}
