//! C06 — a created table reopens with the schema it was created with.
//!
//! Schema round-trip monitor: create_table -> compare the column attribute
//! getters immediately and after save + reopen (foreign keys via _Validation).
//! `Err` is an admissible outcome ("refused rather than silently altered").

use crate::medium::Medium;
use crate::panicmon::guarded;
use crate::prng::{fnv, Rng};
use crate::report::{parallel, Report};
use crate::types::{ColDef, CATEGORIES, CT, V};
use crate::Ctx;
use serde_json::json;
use std::io::Cursor;

type Pkg = msi::Package<crate::medium::Handle>;

pub struct Bench {
    med: Medium,
    pkg: Pkg,
    n: u64,
}

impl Bench {
    pub fn new() -> Bench {
        let med = Medium::new();
        let pkg = msi::Package::create(msi::PackageType::Installer, med.handle()).expect("create");
        Bench { med, pkg, n: 0 }
    }
}

fn read_cols<F: std::io::Read + std::io::Seek>(pkg: &mut msi::Package<F>, table: &str) -> Result<Vec<ColDef>, String> {
    let mut cols: Vec<ColDef> = match pkg.get_table(table) {
        Some(t) => t.columns().iter().map(ColDef::from_msi).collect(),
        None => return Err(format!("table {:?} is not reported", table)),
    };
    // foreign-key annotation from _Validation
    let q = msi::Select::table("_Validation").with(msi::Expr::col("Table").eq(msi::Expr::string(table)));
    let rows = pkg.select_rows(q).map_err(|e| format!("select on _Validation failed: {}", e))?;
    for r in rows {
        let cname = V::from_msi(&r["Column"]);
        let kt = V::from_msi(&r["KeyTable"]);
        let kc = V::from_msi(&r["KeyColumn"]);
        if let (V::Str(cn), V::Str(t), V::Int(i)) = (cname, kt, kc) {
            if let Some(c) = cols.iter_mut().find(|c| c.name == cn) {
                c.fk = Some((t, i));
            }
        }
    }
    Ok(cols)
}

fn first_diff(want: &[ColDef], got: &[ColDef]) -> Option<(String, String)> {
    if want.len() != got.len() {
        return Some(("column-count".into(), format!("{} columns requested, {} reported", want.len(), got.len())));
    }
    for (i, (w, g)) in want.iter().zip(got.iter()).enumerate() {
        let attr = if w.name != g.name {
            "name"
        } else if w.ty != g.ty {
            "type"
        } else if w.nullable != g.nullable {
            "nullable"
        } else if w.key != g.key {
            "primary-key"
        } else if w.localizable != g.localizable {
            "localizable"
        } else if w.range != g.range {
            "range"
        } else if w.category != g.category {
            "category"
        } else if w.enums != g.enums {
            "enum"
        } else if w.fk != g.fk {
            "foreign-key"
        } else {
            continue;
        };
        return Some((attr.to_string(), format!("column {} ({}): requested {} but reported {}", i + 1, attr, w.to_json(), g.to_json())));
    }
    None
}

/// What distinguishes this definition list (for signatures / fingerprints).
fn shape(cols: &[ColDef]) -> String {
    let mut s = format!("n{}", cols.len());
    for c in cols.iter().take(4) {
        let w = match c.ty {
            CT::Str(w) => format!("s{}", if w > 255 { "big".to_string() } else { (w.min(255) / 64).to_string() }),
            CT::Int16 => "i16".into(),
            CT::Int32 => "i32".into(),
        };
        s.push_str(&format!(
            "[{}{}{}{}{}{}{}{}]",
            w,
            c.nullable as u8,
            c.key as u8,
            c.localizable as u8,
            c.range.is_some() as u8,
            c.category.unwrap_or("-"),
            c.enums.len().min(3),
            c.fk.is_some() as u8
        ));
    }
    s
}

/// Creates the table, checks the schema immediately and after reopen, drops it again.
pub fn check_table(rep: &mut Report, b: &mut Bench, cols: &[ColDef], what: &str, witness: serde_json::Value) {
    b.n += 1;
    let name = format!("S{}", b.n);
    let mcols: Vec<msi::Column> = cols.iter().map(|c| c.to_msi()).collect();
    let r = guarded(|| b.pkg.create_table(name.clone(), mcols));
    let fp = fnv(format!("{}:{}", what, shape(cols)).as_bytes());
    match r {
        Err(p) => {
            rep.violation(
                format!("C06/panic/{}", p.signature()),
                format!("create_table panicked for {}: {}", what, p.message),
                witness,
            );
            *b = Bench::new();
            return;
        }
        Ok(Err(_)) => {
            rep.count("refused");
            rep.case(None);
            // make sure a refused definition did not leave the table behind (details are C04's)
            if b.pkg.has_table(&name) {
                let _ = guarded(|| b.pkg.drop_table(&name));
                if b.pkg.has_table(&name) {
                    *b = Bench::new();
                }
            }
            return;
        }
        Ok(Ok(())) => {}
    }
    rep.count("accepted");
    rep.case(Some(fp));
    let mut fail: Option<(String, String)> = None;
    match guarded(|| read_cols(&mut b.pkg, &name)) {
        Ok(Ok(got)) => {
            if let Some((attr, msg)) = first_diff(cols, &got) {
                fail = Some((format!("immediate/{}", attr), format!("right after create_table ({}): {}", what, msg)));
            }
        }
        Ok(Err(e)) => fail = Some(("immediate/unreadable".into(), e)),
        Err(p) => fail = Some((format!("panic/{}", p.signature()), p.message)),
    }
    if fail.is_none() {
        let r = guarded(|| -> Result<Vec<ColDef>, String> {
            b.pkg.flush().map_err(|e| format!("flush failed: {}", e))?;
            let mut p = msi::Package::open(Cursor::new(b.med.live())).map_err(|e| format!("reopen failed: {}", e))?;
            read_cols(&mut p, &name)
        });
        rep.count("reopened");
        match r {
            Ok(Ok(got)) => {
                if let Some((attr, msg)) = first_diff(cols, &got) {
                    fail = Some((format!("reopen/{}", attr), format!("after save and reopen ({}): {}", what, msg)));
                }
            }
            Ok(Err(e)) => fail = Some(("reopen/unreadable".into(), format!("({}) {}", what, e))),
            Err(p) => fail = Some((format!("panic/{}", p.signature()), p.message)),
        }
    }
    if let Some((clause, msg)) = fail {
        rep.violation(format!("C06/{}", clause), msg, witness);
    }
    match guarded(|| b.pkg.drop_table(&name)) {
        Ok(Ok(())) => {}
        _ => *b = Bench::new(),
    }
    if b.n % 400 == 0 {
        *b = Bench::new();
    }
}

fn key() -> ColDef {
    ColDef::new("Id", CT::Int16).key()
}

/// Single-attribute sweeps, as (description, column list).
pub fn sweeps() -> Vec<(String, Vec<ColDef>)> {
    let mut out: Vec<(String, Vec<ColDef>)> = Vec::new();
    for w in [0usize, 1, 2, 127, 128, 254, 255, 256, 257, 511, 512, 1000, 4095, 32767, 32768, 65535, 65536] {
        out.push((format!("string width {}", w), vec![key(), ColDef::new("S", CT::Str(w))]));
        out.push((format!("string key width {}", w), vec![ColDef::new("S", CT::Str(w)).key()]));
        out.push((format!("nullable localizable string width {}", w), vec![key(), ColDef::new("S", CT::Str(w)).nullable().localizable()]));
    }
    for (cat, _) in CATEGORIES.iter() {
        out.push((format!("category {} on a string column", cat), vec![key(), ColDef::new("S", CT::Str(0)).cat(cat)]));
        out.push((format!("category {} on a string(72) column", cat), vec![key(), ColDef::new("S", CT::Str(72)).cat(cat).nullable()]));
        out.push((format!("category {} on an int16 column", cat), vec![key(), ColDef::new("N", CT::Int16).cat(cat)]));
        out.push((format!("category {} on an int32 column", cat), vec![key(), ColDef::new("N", CT::Int32).cat(cat).nullable()]));
    }
    let long_a = "a".repeat(126);
    let long_b = "b".repeat(128);
    let long_c = "c".repeat(129);
    let enums: Vec<(&str, Vec<&str>)> = vec![
        ("one value", vec!["Mon"]),
        ("many", vec!["Mon", "Tue", "Wed", "Thu", "Fri", "Sat", "Sun"]),
        ("a value containing ';'", vec!["a;b", "c"]),
        ("an empty value among others", vec!["a", "", "b"]),
        ("a trailing empty value", vec!["a", ""]),
        ("only the empty value", vec![""]),
        ("joined length 255", vec![&long_a, &long_b]),
        ("joined length 256", vec![&long_a, &long_c]),
        ("duplicates", vec!["x", "x"]),
        ("values with spaces", vec![" a", "b "]),
    ];
    for (d, e) in &enums {
        out.push((format!("enumeration with {}", d), vec![key(), ColDef::new("S", CT::Str(0)).enums(e)]));
        out.push((format!("enumeration with {} on a nullable int16", d), vec![key(), ColDef::new("N", CT::Int16).nullable().enums(e)]));
    }
    let bounds = [i32::MIN, i32::MIN + 1, -32768, -32767, -1, 0, 1, 32767, 32768, i32::MAX - 1, i32::MAX];
    for a in bounds {
        for z in bounds {
            out.push((format!("range ({}, {}) on int32", a, z), vec![key(), ColDef::new("N", CT::Int32).range(a, z)]));
        }
        out.push((format!("range ({}, 5) on int16", a), vec![key(), ColDef::new("N", CT::Int16).range(a, 5).nullable()]));
        out.push((format!("range ({}, 5) on a string column", a), vec![key(), ColDef::new("S", CT::Str(8)).range(a, 5)]));
    }
    for (t, i) in [("Other", 1), ("Other", 32), ("Other", 0), ("Other", 33), ("Other", -1), ("Other", 40000), ("not an identifier", 1), ("", 1), ("_Tables", 2), ("O.t_her9", 7)] {
        out.push((format!("foreign key ({:?}, {})", t, i), vec![key(), ColDef::new("F", CT::Str(72)).fk(t, i).nullable()]));
        out.push((format!("foreign key ({:?}, {}) on int", t, i), vec![key(), ColDef::new("F", CT::Int16).fk(t, i)]));
    }
    for ty in [CT::Int16, CT::Int32, CT::Str(40)] {
        for bits in 0..8u8 {
            let mut c = ColDef::new("C", ty);
            c.nullable = bits & 1 != 0;
            c.key = bits & 2 != 0;
            c.localizable = bits & 4 != 0;
            let cols = if c.key { vec![c] } else { vec![key(), c] };
            out.push((format!("flags nullable={} key={} localizable={} on {:?}", bits & 1, (bits >> 1) & 1, bits >> 2, ty), cols));
        }
    }
    for n in [1usize, 2, 31, 32] {
        let cols: Vec<ColDef> =
            (0..n).map(|i| if i == 0 { ColDef::new("K0", CT::Int32).key() } else { ColDef::new(&format!("C{}", i), if i % 2 == 0 { CT::Str(i) } else { CT::Int16 }).nullable() }).collect();
        out.push((format!("{} columns", n), cols));
    }
    for len in [1usize, 31, 32, 33, 64, 65] {
        let name: String = std::iter::once('N').chain(std::iter::repeat('x').take(len - 1)).collect();
        out.push((format!("column name of {} characters", len), vec![key(), ColDef::new(&name, CT::Int16)]));
    }
    out.push(("binary column".into(), vec![key(), ColDef::new("Data", CT::Str(0)).cat("Binary")]));
    out.push(("binary column with width".into(), vec![key(), ColDef::new("Data", CT::Str(5)).cat("Binary")]));
    out
}

fn random_col(rng: &mut Rng, i: usize) -> ColDef {
    let ty = match rng.below(8) {
        0..=1 => CT::Int16,
        2..=3 => CT::Int32,
        _ => CT::Str(if rng.chance(1, 25) { *rng.pick(&[256usize, 300, 1024, 65535]) } else { *rng.pick(&[0usize, 1, 2, 16, 64, 72, 127, 128, 200, 254, 255]) }),
    };
    let mut c = ColDef::new(&format!("c{}_{}", i, rng.below(100)), ty);
    c.nullable = rng.chance(1, 2);
    c.localizable = rng.chance(1, 5);
    if rng.chance(1, 3) {
        c.category = Some(CATEGORIES[rng.usize(26)].0);
    }
    if rng.chance(1, 6) {
        let a = *rng.pick(&[-(i32::MAX), -32767, -1, 0, 1, 100]);
        let z = *rng.pick(&[0, 1, 100, 32767, i32::MAX]);
        c.range = Some((a, z));
    }
    if rng.chance(1, 8) {
        let k = 1 + rng.usize(4);
        c.enums = (0..k).map(|j| format!("v{}{}", j, if rng.chance(1, 10) { " x" } else { "" })).collect();
    }
    if rng.chance(1, 10) {
        c.fk = Some((format!("Ref{}", rng.below(5)), 1 + rng.below(32) as i32));
    }
    c
}

fn random_schema(rng: &mut Rng, max_cols: usize) -> Vec<ColDef> {
    let n = 1 + rng.usize(max_cols);
    let mut cols: Vec<ColDef> = (0..n).map(|i| random_col(rng, i)).collect();
    let k = rng.usize(n);
    cols[k].key = true;
    if rng.chance(1, 3) {
        let k2 = rng.usize(n);
        cols[k2].key = true;
    }
    cols
}

/// Several tables in one package, created / dropped over several save-and-reopen cycles, with table,
/// column, category and enumeration strings drawn from one small pool so that they coincide across tables.
/// After every cycle every live table must still report the schema it was created with.
pub fn multi_table_session(rep: &mut Report, seed: u64, case: u64, directed: Option<usize>) {
    const NAMES: [&str; 14] = ["Dir", "Tree", "Node", "Dir.Tree", "Tree.Node", "Alpha", "Beta", "K", "Text", "Identifier", "Y", "N", "Cabinet", "Dir.Tree.Node"];
    #[derive(Clone)]
    enum St {
        Create(String, Vec<ColDef>),
        Drop(String),
        Reopen,
        Codepage(i32),
    }
    let k16 = |n: &str| ColDef::new(n, CT::Int16).key();
    let mut rng = Rng::derive(seed, 66, case);
    let steps: Vec<St> = match directed {
        Some(0) => vec![
            St::Create("Dir".into(), vec![k16("K"), ColDef::new("Tree.Node", CT::Int16).range(1, 5)]),
            St::Create("Dir.Tree".into(), vec![k16("K"), ColDef::new("Node", CT::Str(7)).cat("Identifier").nullable()]),
            St::Reopen,
        ],
        Some(1) => vec![
            St::Create("Alpha".into(), vec![k16("Beta")]),
            St::Reopen,
            St::Create("Beta".into(), vec![k16("Alpha")]),
            St::Reopen,
            St::Drop("Alpha".into()),
            St::Reopen,
            St::Reopen,
        ],
        Some(2) => vec![
            St::Create("Alpha".into(), vec![k16("K"), ColDef::new("Text", CT::Str(0)).cat("Text").enums(&["Y", "N"]).nullable()]),
            St::Reopen,
            St::Create("Text".into(), vec![k16("K"), ColDef::new("Alpha", CT::Str(0)).cat("Text").enums(&["Y", "N"]).nullable()]),
            St::Reopen,
            St::Drop("Alpha".into()),
            St::Reopen,
            St::Create("Alpha".into(), vec![k16("Text")]),
            St::Drop("Text".into()),
            St::Reopen,
        ],
        Some(3) => vec![
            // enumeration values outside ASCII under a single-byte database code page that can represent them
            St::Codepage(1252),
            St::Create("Accent".into(), vec![k16("K"), ColDef::new("Mode", CT::Str(0)).enums(&["é", "ü", "plain"]).nullable(), ColDef::new("Other", CT::Str(8)).enums(&["x", "yé"])]),
            St::Reopen,
            St::Create("After".into(), vec![k16("K"), ColDef::new("Mode", CT::Str(0)).enums(&["été", "z"]).nullable()]),
            St::Reopen,
            St::Codepage(65001),
            St::Reopen,
        ],
        _ => {
            let mut v = Vec::new();
            let mut live: Vec<String> = Vec::new();
            for _ in 0..(4 + rng.usize(8)) {
                match rng.below(6) {
                    0 | 1 | 2 => {
                        let name = rng.pick(&NAMES).to_string();
                        let n = 1 + rng.usize(3);
                        let mut cols: Vec<ColDef> = Vec::new();
                        for i in 0..n {
                            let cname = rng.pick(&NAMES).to_string();
                            if cols.iter().any(|c: &ColDef| c.name == cname) {
                                continue;
                            }
                            let mut c = random_col(&mut rng, i);
                            c.name = cname;
                            if !c.enums.is_empty() {
                                c.enums = vec![rng.pick(&NAMES).to_string(), "zz".into()];
                            }
                            if let Some(f) = c.fk.as_mut() {
                                f.0 = rng.pick(&NAMES).to_string();
                            }
                            cols.push(c);
                        }
                        cols[0].key = true;
                        if !live.contains(&name) {
                            live.push(name.clone());
                        }
                        v.push(St::Create(name, cols));
                    }
                    3 if !live.is_empty() => {
                        let i = rng.usize(live.len());
                        v.push(St::Drop(live.remove(i)));
                    }
                    _ => v.push(St::Reopen),
                }
            }
            v.push(St::Reopen);
            v
        }
    };
    let log: Vec<String> = steps
        .iter()
        .map(|s| match s {
            St::Create(n, c) => format!("create {} {}", n, shape(c)),
            St::Drop(n) => format!("drop {}", n),
            St::Reopen => "reopen".into(),
            St::Codepage(p) => format!("set_database_codepage({})", p),
        })
        .collect();
    let witness = json!({"kind": "multi", "seed": seed, "case": case, "directed": directed, "steps": log});
    rep.case(Some(fnv(log.join(";").as_bytes())));
    rep.count("multi_table_sessions");
    let med = Medium::new();
    let mut pkg: Option<Pkg> = Some(msi::Package::create(msi::PackageType::Installer, med.handle()).expect("create"));
    let mut want: std::collections::BTreeMap<String, Vec<ColDef>> = Default::default();
    for (i, st) in steps.iter().enumerate() {
        let at = format!("step {} ({})", i, log[i]);
        let r: Result<(), (String, String)> = (|| {
            match st {
                St::Create(name, cols) => {
                    let mcols: Vec<msi::Column> = cols.iter().map(|c| c.to_msi()).collect();
                    match guarded(|| pkg.as_mut().unwrap().create_table(name.clone(), mcols)) {
                        Err(p) => return Err((format!("panic/{}", p.signature()), p.message)),
                        Ok(Err(_)) => {}
                        Ok(Ok(())) => {
                            want.insert(name.clone(), cols.clone());
                        }
                    }
                }
                St::Drop(name) => match guarded(|| pkg.as_mut().unwrap().drop_table(name)) {
                    Err(p) => return Err((format!("panic/{}", p.signature()), p.message)),
                    Ok(Err(_)) => {}
                    Ok(Ok(())) => {
                        want.remove(name);
                    }
                },
                St::Codepage(id) => {
                    if let Some(cp) = crate::cpora::msi_page(*id) {
                        pkg.as_mut().unwrap().set_database_codepage(cp);
                    }
                }
                St::Reopen => {
                    let p = pkg.take().unwrap();
                    match guarded(move || p.into_inner().map(|_| ())) {
                        Ok(Ok(())) => {}
                        Ok(Err(e)) => return Err(("multi/into_inner-error".into(), e.to_string())),
                        Err(p) => return Err((format!("panic/{}", p.signature()), p.message)),
                    }
                    let h = med.handle();
                    match guarded(|| msi::Package::open(h)) {
                        Ok(Ok(p)) => pkg = Some(p),
                        Ok(Err(e)) => return Err(("multi/reopen-unreadable".into(), format!("the saved package cannot be reopened: {}", e))),
                        Err(p) => return Err((format!("panic/{}", p.signature()), p.message)),
                    }
                }
            }
            // every live table reports the schema it was created with
            for (name, cols) in &want {
                match guarded(|| read_cols(pkg.as_mut().unwrap(), name)) {
                    Ok(Ok(got)) => {
                        if let Some((attr, msg)) = first_diff(cols, &got) {
                            return Err((format!("multi/{}", attr), format!("table {:?}: {}", name, msg)));
                        }
                    }
                    Ok(Err(e)) => return Err(("multi/unreadable".into(), format!("table {:?}: {}", name, e))),
                    Err(p) => return Err((format!("panic/{}", p.signature()), p.message)),
                }
            }
            Ok(())
        })();
        if let Err((clause, msg)) = r {
            rep.violation(format!("C06/{}", clause), format!("{}: {}", at, msg), witness);
            if let Some(p) = pkg.take() {
                std::mem::forget(p);
            }
            return;
        }
    }
}

pub fn run(ctx: &Ctx) -> Report {
    let sw = sweeps();
    if let Some(w) = &ctx.replay {
        let mut rep = Report::new();
        let mut b = Bench::new();
        match w["kind"].as_str() {
            Some("sweep") => {
                for (d, cols) in &sw {
                    if Some(d.as_str()) == w["what"].as_str() {
                        check_table(&mut rep, &mut b, cols, d, w.clone());
                    }
                }
            }
            Some("pair") => {
                let (i, j) = (w["i"].as_u64().unwrap_or(0) as usize, w["j"].as_u64().unwrap_or(0) as usize);
                if let Some(cols) = pair(&sw, i, j) {
                    check_table(&mut rep, &mut b, &cols, "pair", w.clone());
                }
            }
            Some("multi") => multi_table_session(&mut rep, w["seed"].as_u64().unwrap_or(ctx.seed), w["case"].as_u64().unwrap_or(0), w["directed"].as_u64().map(|x| x as usize)),
            Some("random") => {
                let mut rng = Rng::derive(w["seed"].as_u64().unwrap_or(ctx.seed), 6, w["case"].as_u64().unwrap_or(0));
                let cols = random_schema(&mut rng, 32);
                check_table(&mut rep, &mut b, &cols, "random", w.clone());
            }
            _ => rep.inconclusive.push("unknown replay kind".into()),
        }
        return rep;
    }
    let n_random = ctx.budget(30_000, 600_000);
    let pair_stride = if ctx.quick() { 17 } else { 1 };
    let seed = ctx.seed;
    let sw_ref = &sw;
    let mut rep = parallel(ctx.threads, |shard, n| {
        let mut rep = Report::new();
        let mut b = Bench::new();
        for (k, (d, cols)) in sw_ref.iter().enumerate() {
            if k % n == shard {
                check_table(&mut rep, &mut b, cols, d, json!({"kind": "sweep", "what": d}));
                rep.count("sweep_tables");
            }
        }
        // pairwise combinations of the single-attribute classes (two tested columns in one table)
        let m = sw_ref.len();
        let mut k = 0usize;
        for i in 0..m {
            for j in (i + 1)..m {
                k += 1;
                if k % pair_stride != 0 || (k / pair_stride) % n != shard {
                    continue;
                }
                if let Some(cols) = pair(sw_ref, i, j) {
                    check_table(&mut rep, &mut b, &cols, "pair", json!({"kind": "pair", "i": i, "j": j, "a": sw_ref[i].0, "b": sw_ref[j].0}));
                    rep.count("pair_tables");
                }
            }
        }
        for d in 0..4usize {
            if d % n == shard {
                multi_table_session(&mut rep, seed, d as u64, Some(d));
            }
        }
        for case in (shard as u64..n_random / 20).step_by(n) {
            multi_table_session(&mut rep, seed, case, None);
        }
        for case in (shard as u64..n_random).step_by(n) {
            let mut rng = Rng::derive(seed, 6, case);
            let cols = random_schema(&mut rng, 32);
            check_table(&mut rep, &mut b, &cols, "random", json!({"kind": "random", "seed": seed, "case": case}));
            rep.count("random_tables");
        }
        rep
    });
    rep.exhaustive_parts.push("every single-attribute sweep (widths, 26 categories x 4 column kinds, enumerations, ranges over boundary integers, foreign keys, 8 flag combinations x 3 types, column counts, name lengths)".into());
    rep.sample(json!({"what": sw[21].0, "columns": sw[21].1.iter().map(|c| c.to_json()).collect::<Vec<_>>()}));
    rep.sample(json!({"what": sw[33].0, "columns": sw[33].1.iter().map(|c| c.to_json()).collect::<Vec<_>>()}));
    let mut rng = Rng::derive(seed, 6, 0);
    rep.sample(json!({"what": "random column list (case 0)", "columns": random_schema(&mut rng, 32).iter().take(5).map(|c| c.to_json()).collect::<Vec<_>>()}));
    rep
}

/// Combines the tested (non-"Id") columns of two sweeps into one table.
fn pair(sw: &[(String, Vec<ColDef>)], i: usize, j: usize) -> Option<Vec<ColDef>> {
    let a = sw.get(i)?;
    let b = sw.get(j)?;
    if a.1.len() > 2 || b.1.len() > 2 {
        return None;
    }
    let mut cols = vec![key()];
    for (tag, src) in [("A", &a.1), ("B", &b.1)] {
        for c in src.iter() {
            if c.name == "Id" {
                continue;
            }
            let mut c = c.clone();
            c.name = format!("{}{}", tag, c.name.chars().take(20).collect::<String>());
            cols.push(c);
        }
    }
    Some(cols)
}
