//! C17 — language codes and tags map consistently (law checker; the tag table
//! is recovered as the image of `tag()` over all 65,536 codes).

use crate::panicmon::guarded;
use crate::prng::{fnv, Rng};
use crate::report::{parallel, Report};
use crate::Ctx;
use msi::Language;
use serde_json::json;
use std::collections::{BTreeMap, BTreeSet};

const PINNED: [(u16, &str); 36] = [
    (1033, "en-US"),
    (2057, "en-GB"),
    (3081, "en-AU"),
    (4105, "en-CA"),
    (1036, "fr-FR"),
    (3084, "fr-CA"),
    (2060, "fr-BE"),
    (4108, "fr-CH"),
    (1031, "de-DE"),
    (2055, "de-CH"),
    (3079, "de-AT"),
    (1041, "ja-JP"),
    (1042, "ko-KR"),
    (1040, "it-IT"),
    (2058, "es-MX"),
    (1046, "pt-BR"),
    (2070, "pt-PT"),
    (1043, "nl-NL"),
    (2067, "nl-BE"),
    (1049, "ru-RU"),
    (1045, "pl-PL"),
    (1053, "sv-SE"),
    (1030, "da-DK"),
    (1035, "fi-FI"),
    (1044, "nb-NO"),
    (1055, "tr-TR"),
    (1029, "cs-CZ"),
    (1038, "hu-HU"),
    (1032, "el-GR"),
    (1037, "he-IL"),
    (1025, "ar-SA"),
    (1054, "th-TH"),
    (1058, "uk-UA"),
    (1081, "hi-IN"),
    (1066, "vi-VN"),
    (1057, "id-ID"),
];

struct Image {
    /// tag -> codes having that tag
    by_tag: BTreeMap<String, Vec<u16>>,
    /// bare language tags (no '-') except "und", lower-cased for the case-insensitive test
    bare_lower: BTreeSet<String>,
}

fn tag_of(code: u16) -> Result<String, String> {
    guarded(|| Language::from_code(code).tag().to_string()).map_err(|p| p.signature())
}

/// The tag of `code`, or a marker when `tag()` panics (build_image reports that panic as a violation;
/// the later laws must not take the monitor down with it).
fn tag_or(code: u16) -> String {
    tag_of(code).unwrap_or_else(|_| "<tag() panicked>".to_string())
}

/// `from_tag(s).code()`, or None when it panics (reported by check_from_tag / the table-tag law).
fn code_of_tag(s: &str) -> Option<u16> {
    guarded(|| Language::from_tag(s).code()).ok()
}

fn build_image(rep: &mut Report) -> Image {
    let mut by_tag: BTreeMap<String, Vec<u16>> = BTreeMap::new();
    for c in 0..=u16::MAX {
        let l = Language::from_code(c);
        if l.code() != c {
            rep.violation(
                format!("C17/code-preserved/{}", c),
                format!("from_code({}).code() = {}", c, l.code()),
                json!({"kind": "code", "code": c}),
            );
        }
        match tag_of(c) {
            Ok(t) => by_tag.entry(t).or_default().push(c),
            Err(sig) => rep.violation(
                format!("C17/tag-panic/{}", sig),
                format!("Language::from_code({}).tag() panicked", c),
                json!({"kind": "code", "code": c}),
            ),
        }
        rep.evaluations += 1;
    }
    let bare_lower = by_tag.keys().filter(|t| !t.contains('-') && t.as_str() != "und").map(|t| t.to_lowercase()).collect();
    Image { by_tag, bare_lower }
}

fn check_from_tag(rep: &mut Report, img: &Image, s: &str) {
    let r = guarded(|| {
        let l = Language::from_tag(s);
        (l.code(), l.tag().to_string())
    });
    let (code, tag) = match r {
        Ok(x) => x,
        Err(p) => {
            rep.violation(
                format!("C17/from_tag-panic/{}", p.signature()),
                format!("Language::from_tag({:?}) panicked: {}", s, p.message),
                json!({"kind": "tag", "tag": s}),
            );
            return;
        }
    };
    let lang_part = s.split('-').next().unwrap_or("");
    let has_region = s.contains('-');
    let lang_known_ci = img.bare_lower.contains(&lang_part.to_lowercase());
    let lang_known_exact = img.by_tag.contains_key(lang_part) && lang_part != "und" && !lang_part.is_empty();
    let class;
    if !lang_known_ci {
        class = 0u8;
        if code != 0 {
            rep.violation(
                "C17/unknown-language-not-neutral".to_string(),
                format!("from_tag({:?}) has an unknown language but maps to code {} ({})", s, code, tag),
                json!({"kind": "tag", "tag": s}),
            );
        }
    } else if !lang_known_exact {
        class = 1; // known only case-insensitively: either answer admissible
    } else if !has_region {
        class = 2;
        if tag != s || code >= 0x400 {
            rep.violation(
                format!("C17/bare-tag/{}", s),
                format!("from_tag({:?}) = code {} with tag {:?}; expected the neutral code of that language", s, code, tag),
                json!({"kind": "tag", "tag": s}),
            );
        }
    } else if img.by_tag.contains_key(s) {
        class = 3;
        if tag != s {
            rep.violation(
                format!("C17/table-tag/{}", s),
                format!("from_tag({:?}).tag() = {:?} (code {})", s, tag, code),
                json!({"kind": "tag", "tag": s}),
            );
        }
    } else {
        class = 4;
        // known language, unknown region: never the code of a different, known regional variant
        if tag.contains('-') {
            rep.violation(
                format!("C17/unknown-region/{}", lang_part),
                format!("from_tag({:?}) has an unknown region but maps to code {} = {:?}, a different known regional variant", s, code, tag),
                json!({"kind": "tag", "tag": s}),
            );
        }
    }
    rep.case(Some(fnv(format!("{}:{}:{}", class, lang_part.to_lowercase(), code).as_bytes())));
}

fn letters(n: usize, idx: usize, upper_mask: usize) -> String {
    let mut s = String::new();
    let mut k = idx;
    for i in 0..n {
        let c = (b'a' + (k % 26) as u8) as char;
        k /= 26;
        s.push(if upper_mask >> i & 1 == 1 { c.to_ascii_uppercase() } else { c });
    }
    s
}

pub fn run(ctx: &Ctx) -> Report {
    let mut rep = Report::new();
    let img = build_image(&mut rep);
    rep.add("codes_checked", 65536);
    rep.add("distinct_tags_in_image", img.by_tag.len() as u64);
    if let Some(w) = &ctx.replay {
        match w["kind"].as_str() {
            Some("tag") => check_from_tag(&mut rep, &img, w["tag"].as_str().unwrap_or("")),
            _ => {} // code laws were re-run by build_image
        }
        return rep;
    }
    // round trip through the tag for every code
    for (t, codes) in &img.by_tag {
        let r = guarded(|| Language::from_tag(t).tag().to_string());
        match r {
            Ok(back) => {
                if &back != t {
                    rep.violation(
                        format!("C17/tag-roundtrip/{}", t),
                        format!("tag {:?} (of code {}) converts to a language whose tag is {:?}", t, codes[0], back),
                        json!({"kind": "tag", "tag": t}),
                    );
                }
            }
            Err(p) => rep.violation(
                format!("C17/from_tag-panic/{}", p.signature()),
                format!("from_tag({:?}) panicked", t),
                json!({"kind": "tag", "tag": t}),
            ),
        }
        // every table tag maps to its own code and back
        let code = match code_of_tag(t) {
            Some(c) => c,
            None => {
                rep.violation(format!("C17/from_tag-panic/{}", t), format!("from_tag({:?}) panicked", t), json!({"kind": "tag", "tag": t}));
                continue;
            }
        };
        if t != "und" {
            if !codes.contains(&code) {
                rep.violation(
                    format!("C17/own-code/{}", t),
                    format!("from_tag({:?}).code() = {} whose tag is {:?}", t, code, tag_or(code)),
                    json!({"kind": "tag", "tag": t}),
                );
            }
            if t.contains('-') && codes.len() != 1 {
                rep.violation(
                    format!("C17/ambiguous-region-tag/{}", t),
                    format!("regional tag {:?} is the tag of {} different codes {:?}", t, codes.len(), &codes[..codes.len().min(4)]),
                    json!({"kind": "tag", "tag": t}),
                );
            }
        }
        rep.case(Some(fnv(t.as_bytes())));
    }
    // "und" for unknown languages, bare tag for unknown sublanguage
    for (t, codes) in &img.by_tag {
        if t == "und" || t.contains('-') {
            continue;
        }
        let langs: BTreeSet<u16> = codes.iter().map(|c| c & 0x3ff).collect();
        if langs.len() != 1 {
            rep.violation(
                format!("C17/bare-tag-two-languages/{}", t),
                format!("bare tag {:?} is returned for primary language ids {:?}", t, langs),
                json!({"kind": "tag", "tag": t}),
            );
        }
    }
    // 'und' is for unknown LANGUAGES only: when some identifier of a primary language has a tag, every
    // identifier of that language has one (the bare language tag at least), and they all share the language part
    for primary in 0u16..1024 {
        let tags: Vec<(u16, String)> = (0u16..64).map(|sub| primary | (sub << 10)).map(|c| (c, tag_or(c))).collect();
        let known: Vec<&(u16, String)> = tags.iter().filter(|(_, t)| t != "und").collect();
        if known.is_empty() {
            continue;
        }
        let lang_part = |t: &str| t.split('-').next().unwrap_or("").to_string();
        let lp = lang_part(&known[0].1);
        for (c, t) in &tags {
            if t == "und" {
                rep.violation(
                    format!("C17/und-for-known-language/{}", lp),
                    format!("identifier {} (primary language {} = {:?}, sublanguage {}) has the tag \"und\" although the language is known; the bare language tag is documented for an unknown sublanguage", c, primary, lp, c >> 10),
                    json!({"kind": "code", "code": c}),
                );
                break;
            }
            if lang_part(t) != lp {
                rep.violation(
                    format!("C17/language-part-differs/{}", lp),
                    format!("identifiers of primary language {} carry tags of different languages: {:?} and {:?} (code {})", primary, known[0].1, t, c),
                    json!({"kind": "code", "code": c}),
                );
                break;
            }
        }
    }
    for &(code, tag) in PINNED.iter() {
        let got = tag_or(code);
        let back = code_of_tag(tag).unwrap_or(u16::MAX);
        if got != tag || back != code {
            rep.violation(
                format!("C17/pinned/{}", code),
                format!("Windows identifier {} should be {:?}: tag() = {:?}, from_tag({:?}).code() = {}", code, tag, got, tag, back),
                json!({"kind": "tag", "tag": tag}),
            );
        }
        rep.case(Some(fnv(format!("pinned{}", code).as_bytes())));
    }
    rep.add("pinned_pairs", PINNED.len() as u64);

    // bounded-exhaustive and random tag strings, in parallel
    let thorough = !ctx.quick();
    let seed = ctx.seed;
    let img_ref = &img;
    let par = parallel(ctx.threads, |shard, n| {
        let mut rep = Report::new();
        let mut s = String::new();
        // ll and lll, lower and all case masks
        for len in [2usize, 3] {
            let total = 26usize.pow(len as u32);
            for idx in (shard..total).step_by(n) {
                for mask in 0..(1usize << len) {
                    if mask != 0 && !thorough && idx % 7 != 0 {
                        continue;
                    }
                    s.clear();
                    s.push_str(&letters(len, idx, mask));
                    check_from_tag(&mut rep, img_ref, &s);
                }
            }
        }
        // ll-RR (all), lll-RR (thorough: all; quick: languages in the image + a sample)
        let regions = 26usize * 26;
        for len in [2usize, 3] {
            let total = 26usize.pow(len as u32);
            for idx in (shard..total).step_by(n) {
                let lang = letters(len, idx, 0);
                let known = img_ref.bare_lower.contains(&lang);
                if len == 3 && !thorough && !known && idx % 29 != 0 {
                    continue;
                }
                for r in 0..regions {
                    s.clear();
                    s.push_str(&lang);
                    s.push('-');
                    s.push_str(&letters(2, r, 3));
                    check_from_tag(&mut rep, img_ref, &s);
                }
                if known {
                    // lower-case regions, longer subtags, doubled separators
                    for r in (0..regions).step_by(5) {
                        s.clear();
                        s.push_str(&lang);
                        s.push('-');
                        s.push_str(&letters(2, r, 0));
                        check_from_tag(&mut rep, img_ref, &s);
                    }
                    for extra in ["-", "--", "-Latn-RS", "-US-x", "-001", "_US", "-us", "-Us", "-ZZ", "-XX", "-QQ"] {
                        s.clear();
                        s.push_str(&lang);
                        s.push_str(extra);
                        check_from_tag(&mut rep, img_ref, &s);
                    }
                }
            }
        }
        // random strings
        let mut rng = Rng::derive(seed, 17, shard as u64);
        let alphabet: Vec<char> = "abcdefghijklmnopqrstuvwxyzABCDEFGHIJKLMNOPQRSTUVWXYZ0123456789-_ é日".chars().collect();
        let tags: Vec<&String> = img_ref.by_tag.keys().collect();
        let rounds = if thorough { 4_000_000 } else { 300_000 };
        for _ in 0..rounds {
            s.clear();
            match rng.below(4) {
                0 => {
                    // mutate a table tag
                    let t = *rng.pick(&tags);
                    let mut cs: Vec<char> = t.chars().collect();
                    if !cs.is_empty() {
                        let i = rng.usize(cs.len());
                        match rng.below(3) {
                            0 => cs[i] = *rng.pick(&alphabet),
                            1 => {
                                cs.remove(i);
                            }
                            _ => cs.insert(i, *rng.pick(&alphabet)),
                        }
                    }
                    s.extend(cs);
                }
                _ => {
                    let len = rng.range(0, 9) as usize;
                    for _ in 0..len {
                        s.push(*rng.pick(&alphabet));
                    }
                }
            }
            check_from_tag(&mut rep, img_ref, &s);
        }
        rep
    });
    rep.merge(par);
    rep.exhaustive_parts.push("all 65,536 language identifiers (code preservation, tag(), tag round trip)".into());
    rep.exhaustive_parts.push("every tag in the image of tag()".into());
    rep.sample(json!({"law": "pinned identifier", "code": 1033, "tag": tag_or(1033)}));
    rep.sample(json!({"law": "unknown region", "input": "en-ZZ", "code": code_of_tag("en-ZZ"), "tag": code_of_tag("en-ZZ").map(tag_or)}));
    rep.sample(json!({"law": "unknown language", "input": "xx-YY", "code": code_of_tag("xx-YY")}));
    rep.sample(json!({"law": "tag round trip", "code": 3084, "tag": tag_or(3084), "back": code_of_tag(&tag_or(3084))}));
    rep
}
