//! C04 — rejected operations change nothing.
//!
//! Before/after snapshot monitor around calls the generator intends to be
//! invalid; it applies only when the call actually returned `Err`.

use crate::engine::{check_image, reopen_observe, token_of, tokens_in_model, Finding, Monitors, Session};
use crate::exprmodel::{Bin, MExpr};
use crate::gen::{Gen, GenCfg};
use crate::model::{exec_op, Op};
use crate::panicmon::guarded;
use crate::prng::{fnv, Rng};
use crate::report::{parallel, Report};
use crate::types::{ColDef, CT, V};
use crate::Ctx;
use serde_json::json;

/// An invalid call: either an `Op` or a read call made directly.
#[derive(Clone, Debug)]
pub enum Call {
    Op(Op),
    /// state preparation through the API (part of the reachable state), then the call under test
    Prepared(Vec<Op>, Op),
    ReadStream(String),
    Select { table: String, cols: Vec<String>, cond: Option<MExpr> },
}

fn kv(name: &str) -> Vec<ColDef> {
    let _ = name;
    vec![ColDef::new("K", CT::Int16).key(), ColDef::new("V", CT::Str(0)).nullable()]
}

fn long_ident(n: usize) -> String {
    std::iter::once('L').chain(std::iter::repeat('n').take(n - 1)).collect()
}

/// The invalid-call families, instantiated for the current model state.
pub fn families(s: &Session, g: &mut Gen) -> Vec<(&'static str, Call)> {
    let mut out: Vec<(&'static str, Call)> = Vec::new();
    let tok = g.token();
    let fresh = format!("N{}", tok);
    let tables: Vec<String> = s.model.tables.keys().cloned().collect();
    let existing = tables.first().cloned();
    let c = |op: Op| Call::Op(op);
    // ---- create_table: name checks
    for (fam, name) in [
        ("create/invalid-name-digit", "9abc".to_string()),
        ("create/invalid-name-empty", "".to_string()),
        ("create/invalid-name-space", "a b".to_string()),
        ("create/name-too-long-for-container", long_ident(70)),
        ("create/reserved-_Tables", "_Tables".to_string()),
        ("create/reserved-_Columns", "_Columns".to_string()),
        ("create/reserved-_Validation", "_Validation".to_string()),
    ] {
        out.push((fam, c(Op::CreateTable { name, cols: kv("x") })));
    }
    if let Some(t) = &existing {
        out.push(("create/existing-table", c(Op::CreateTable { name: t.clone(), cols: kv("x") })));
    }
    // ---- create_table: column list checks
    out.push(("create/no-columns", c(Op::CreateTable { name: fresh.clone(), cols: vec![] })));
    out.push((
        "create/33-columns",
        c(Op::CreateTable { name: fresh.clone(), cols: (0..33).map(|i| if i == 0 { ColDef::new("K", CT::Int16).key() } else { ColDef::new(&format!("C{}", i), CT::Int16) }).collect() }),
    ));
    out.push(("create/no-key", c(Op::CreateTable { name: fresh.clone(), cols: vec![ColDef::new("A", CT::Int16), ColDef::new("B", CT::Str(4))] })));
    out.push((
        "create/duplicate-column-names",
        c(Op::CreateTable { name: fresh.clone(), cols: vec![ColDef::new("A", CT::Int16).key(), ColDef::new("B", CT::Str(4)), ColDef::new("B", CT::Int32)] }),
    ));
    out.push(("create/invalid-column-name", c(Op::CreateTable { name: fresh.clone(), cols: vec![ColDef::new("A", CT::Int16).key(), ColDef::new("bad name", CT::Str(4))] })));
    // ---- create_table: late failures (pass the name checks, not storable in the catalog)
    let key = ColDef::new("K", CT::Int16).key();
    let valtok = format!("late{}", tok);
    out.push(("create/late-column-name-40", c(Op::CreateTable { name: fresh.clone(), cols: vec![key.clone(), ColDef::new(&format!("{}{}", long_ident(34), valtok), CT::Int16)] })));
    out.push((
        "create/late-column-name-40-last-of-three",
        c(Op::CreateTable { name: fresh.clone(), cols: vec![key.clone(), ColDef::new(&format!("Mid{}", valtok), CT::Str(9)).nullable(), ColDef::new(&long_ident(40), CT::Int16)] }),
    ));
    out.push(("create/late-column-name-65", c(Op::CreateTable { name: fresh.clone(), cols: vec![key.clone(), ColDef::new(&long_ident(65), CT::Int16)] })));
    out.push(("create/late-table-name-40", c(Op::CreateTable { name: format!("{}{}", long_ident(33), valtok), cols: kv("x") })));
    out.push(("create/late-table-name-60", c(Op::CreateTable { name: long_ident(60), cols: kv("x") })));
    let e1 = "e".repeat(130);
    let e2 = "f".repeat(130);
    out.push((
        "create/late-enum-joined-over-255",
        c(Op::CreateTable { name: fresh.clone(), cols: vec![key.clone(), ColDef::new(&format!("E{}", valtok), CT::Str(0)).enums(&[&e1, &e2])] }),
    ));
    out.push(("create/late-foreign-key-table-not-identifier", c(Op::CreateTable { name: fresh.clone(), cols: vec![key.clone(), ColDef::new("F", CT::Str(8)).fk("not an identifier", 1)] })));
    out.push(("create/late-foreign-key-index-0", c(Op::CreateTable { name: fresh.clone(), cols: vec![key.clone(), ColDef::new("F", CT::Str(8)).fk("Other", 0)] })));
    out.push(("create/late-foreign-key-index-33", c(Op::CreateTable { name: fresh.clone(), cols: vec![key.clone(), ColDef::new("F", CT::Str(8)).fk("Other", 33)] })));
    out.push(("create/late-range-min-i32-min", c(Op::CreateTable { name: fresh.clone(), cols: vec![key.clone(), ColDef::new("R", CT::Int32).range(i32::MIN, 5)] })));
    out.push(("create/late-range-max-i32-min", c(Op::CreateTable { name: fresh.clone(), cols: vec![key.clone(), ColDef::new("R", CT::Int32).range(-5, i32::MIN)] })));
    out.push(("create/late-string-width-40000", c(Op::CreateTable { name: fresh.clone(), cols: vec![key.clone(), ColDef::new("W", CT::Str(40_000))] })));
    out.push(("create/late-string-width-65536", c(Op::CreateTable { name: fresh.clone(), cols: vec![key.clone(), ColDef::new("W", CT::Str(65_536))] })));
    out.push(("create/string-width-300", c(Op::CreateTable { name: fresh.clone(), cols: vec![key.clone(), ColDef::new("W", CT::Str(300))] })));
    out.push(("create/enum-value-with-separator", c(Op::CreateTable { name: fresh.clone(), cols: vec![key.clone(), ColDef::new("E", CT::Str(0)).enums(&["a;b", "c"])] })));
    out.push(("create/enum-empty-value", c(Op::CreateTable { name: fresh.clone(), cols: vec![key.clone(), ColDef::new("E", CT::Str(0)).enums(&[""])] })));
    // ---- create_table onto stale catalog rows that were put there through the API itself
    let stale = format!("Stale{}", tok);
    let vrow = |col: &str| vec![V::Str(stale.clone()), V::s(col), V::s("N"), V::Null, V::Null, V::Null, V::Null, V::Null, V::Null, V::Null];
    out.push((
        "create/stale-validation-row",
        Call::Prepared(vec![Op::Insert { table: "_Validation".into(), rows: vec![vrow("V")] }], Op::CreateTable { name: stale.clone(), cols: kv("x") }),
    ));
    out.push((
        "create/stale-columns-row",
        Call::Prepared(
            vec![Op::Insert { table: "_Columns".into(), rows: vec![vec![V::Str(stale.clone()), V::Int(2), V::s("V"), V::Int(0x1d00)]] }],
            Op::CreateTable { name: stale.clone(), cols: kv("x") },
        ),
    ));
    // ---- a value of the wrong type that is spelled like a member of the column's enumeration
    {
        let et = format!("Enum{}", tok);
        let prep = vec![
            Op::CreateTable {
                name: et.clone(),
                cols: vec![ColDef::new("K", CT::Int16).key(), ColDef::new("E", CT::Int16).nullable().enums(&["1", "2", "3"]), ColDef::new("S", CT::Str(8)).nullable().enums(&["7", "x"])],
            },
            Op::Insert { table: et.clone(), rows: vec![vec![V::Int(1), V::Int(1), V::s("x")], vec![V::Int(2), V::Int(2), V::s("7")], vec![V::Int(3), V::Null, V::Null]] },
        ];
        out.push(("insert/string-member-of-int-enum", Call::Prepared(prep.clone(), Op::Insert { table: et.clone(), rows: vec![vec![V::Int(4), V::s("2"), V::Null]] })));
        out.push(("update/string-member-of-int-enum", Call::Prepared(prep.clone(), Op::Update { table: et.clone(), sets: vec![("E".into(), V::s("2"))], cond: None })));
        out.push(("insert/int-member-of-string-enum", Call::Prepared(prep.clone(), Op::Insert { table: et.clone(), rows: vec![vec![V::Int(4), V::Null, V::Int(7)]] })));
        out.push(("update/int-member-of-string-enum", Call::Prepared(prep, Op::Update { table: et.clone(), sets: vec![("S".into(), V::Int(7))], cond: None })));
    }
    // ---- drop_table
    out.push(("drop/unknown", c(Op::DropTable { name: fresh.clone() })));
    out.push(("drop/reserved", c(Op::DropTable { name: "_Validation".into() })));
    out.push(("drop/invalid-name", c(Op::DropTable { name: "no such table!".into() })));
    // ---- stream calls
    out.push(("stream/write-empty-name", c(Op::WriteStream { name: "".into(), data: vec![1, 2, 3] })));
    out.push(("stream/write-name-too-long", c(Op::WriteStream { name: "é".repeat(40), data: vec![1, 2, 3] })));
    out.push(("stream/write-table-marker", c(Op::WriteStream { name: format!("\u{4840}{}", fresh), data: vec![1, 2, 3] })));
    out.push(("stream/write-path-separator", c(Op::WriteStream { name: "a/b".into(), data: vec![1, 2, 3] })));
    out.push(("stream/remove-nonexistent", c(Op::RemoveStream { name: fresh.clone() })));
    out.push(("stream/remove-invalid", c(Op::RemoveStream { name: "".into() })));
    out.push(("stream/read-nonexistent", Call::ReadStream(fresh.clone())));
    out.push(("stream/read-invalid", Call::ReadStream("".into())));
    for t in ["_Tables", "_StringPool"] {
        out.push(("stream/remove-table-by-plain-name", c(Op::RemoveStream { name: t.into() })));
    }
    // ---- row operations
    out.push(("insert/unknown-table", c(Op::Insert { table: fresh.clone(), rows: vec![vec![V::Int(1)]] })));
    out.push(("update/unknown-table", c(Op::Update { table: fresh.clone(), sets: vec![("K".into(), V::Int(1))], cond: None })));
    out.push(("delete/unknown-table", c(Op::Delete { table: fresh.clone(), cond: None })));
    out.push(("select/unknown-table", Call::Select { table: fresh.clone(), cols: vec![], cond: None }));
    for tn in tables.iter().take(2) {
        let t = &s.model.tables[tn];
        let page = s.model.db_codepage;
        let good = |g: &mut Gen| g.fresh_row(&s.model, tn, &[]);
        if let Some(r) = good(g) {
            let mut short = r.clone();
            short.pop();
            out.push(("insert/arity-short", c(Op::Insert { table: tn.clone(), rows: vec![short] })));
            let mut long = r.clone();
            long.push(V::Null);
            out.push(("insert/arity-long", c(Op::Insert { table: tn.clone(), rows: vec![long] })));
            out.push(("insert/arity-zero", c(Op::Insert { table: tn.clone(), rows: vec![vec![]] })));
            // an invalid value: wrong type in the last column, in the last row of a batch
            let mut bad = match good(g) {
                Some(b) => b,
                None => r.clone(),
            };
            let last = bad.len() - 1;
            bad[last] = if t.cols[last].ty.is_str() { V::Int(7) } else { V::s("seven") };
            let r2 = g.fresh_row(&s.model, tn, &[r.clone(), bad.clone()]);
            let mut batch = vec![r.clone()];
            if let Some(x) = r2 {
                batch.push(x);
            }
            batch.push(bad.clone());
            out.push(("insert/invalid-value-last-row-of-batch", c(Op::Insert { table: tn.clone(), rows: batch })));
            out.push(("insert/invalid-value-first-row-of-batch", c(Op::Insert { table: tn.clone(), rows: vec![bad.clone(), r.clone()] })));
            // null in a non-nullable column
            if let Some(ci) = t.cols.iter().position(|c| !c.nullable && !c.ty.is_str()) {
                let mut n = r.clone();
                n[ci] = V::Null;
                out.push(("insert/null-in-non-nullable", c(Op::Insert { table: tn.clone(), rows: vec![n] })));
            }
            // int16 overflow
            if let Some(ci) = t.cols.iter().position(|c| c.ty == CT::Int16) {
                let mut n = r.clone();
                n[ci] = V::Int(32768);
                out.push(("insert/int16-out-of-range", c(Op::Insert { table: tn.clone(), rows: vec![n.clone()] })));
                n[ci] = V::Int(-32768);
                out.push(("insert/int16-reserved-null-value", c(Op::Insert { table: tn.clone(), rows: vec![r.clone(), n] })));
            }
            // duplicate keys
            out.push(("insert/duplicate-within-batch-first-last", c(Op::Insert { table: tn.clone(), rows: vec![r.clone(), g.fresh_row(&s.model, tn, &[r.clone()]).unwrap_or(r.clone()), r.clone()] })));
            if let Some(ex) = t.rows.first() {
                let mut dup = r.clone();
                for ki in t.key_idx() {
                    dup[ki] = ex[ki].clone();
                }
                out.push(("insert/duplicate-of-existing", c(Op::Insert { table: tn.clone(), rows: vec![dup.clone()] })));
                out.push(("insert/duplicate-of-existing-last-of-batch", c(Op::Insert { table: tn.clone(), rows: vec![r.clone(), dup] })));
            }
        }
        // updates
        out.push(("update/unknown-column-in-set", c(Op::Update { table: tn.clone(), sets: vec![("NoSuchColumn".into(), V::Int(1))], cond: None })));
        let c0 = &t.cols[0];
        let v0 = g.value_for(c0, page);
        out.push((
            "update/unknown-column-in-condition",
            c(Op::Update { table: tn.clone(), sets: vec![(c0.name.clone(), v0.clone())], cond: Some(MExpr::Col("NoSuchColumn".into())) }),
        ));
        let lastc = &t.cols[t.cols.len() - 1];
        let badv = if lastc.ty.is_str() { V::Int(7) } else { V::s("seven") };
        out.push(("update/invalid-value", c(Op::Update { table: tn.clone(), sets: vec![(lastc.name.clone(), badv.clone())], cond: None })));
        out.push((
            "update/valid-then-invalid-assignment",
            c(Op::Update { table: tn.clone(), sets: vec![(c0.name.clone(), v0.clone()), (lastc.name.clone(), badv)], cond: None }),
        ));
        if t.rows.len() >= 2 {
            // assigning every key column a constant collides as soon as two rows match
            let sets: Vec<(String, V)> = t.key_idx().iter().map(|&ki| (t.cols[ki].name.clone(), t.rows[0][ki].clone())).collect();
            out.push(("update/key-collision", c(Op::Update { table: tn.clone(), sets, cond: None })));
        }
        // deletes / selects
        out.push(("delete/unknown-column-in-condition", c(Op::Delete { table: tn.clone(), cond: Some(MExpr::Bin(Bin::Eq, Box::new(MExpr::Col("NoSuchColumn".into())), Box::new(MExpr::Lit(V::Int(1))))) })));
        out.push(("select/unknown-column", Call::Select { table: tn.clone(), cols: vec!["NoSuchColumn".into()], cond: None }));
        out.push(("select/unknown-column-in-condition", Call::Select { table: tn.clone(), cols: vec![], cond: Some(MExpr::Col("NoSuchColumn".into())) }));
    }
    out
}

fn call_tokens(call: &Call) -> Vec<String> {
    let mut out = Vec::new();
    let mut add = |s: &str| {
        if let Some(t) = token_of(s) {
            out.push(t);
        }
    };
    if let Call::Op(op) | Call::Prepared(_, op) = call {
        match op {
            Op::CreateTable { name, cols } => {
                add(name);
                for c in cols {
                    add(&c.name);
                    for e in &c.enums {
                        add(e);
                    }
                }
            }
            Op::Insert { rows, .. } => {
                for r in rows {
                    for v in r {
                        if let V::Str(s) = v {
                            add(s);
                        }
                    }
                }
            }
            Op::Update { sets, .. } => {
                for (_, v) in sets {
                    if let V::Str(s) = v {
                        add(s);
                    }
                }
            }
            _ => {}
        }
    }
    out
}

/// Fires one call; if it returns Err, the package must be unchanged.
pub fn fire(s: &mut Session, fam: &str, call: &Call, rep: &mut Report) -> Result<bool, Finding> {
    if let Call::Prepared(prep, _) = call {
        let pkg = match s.pkg.as_mut() {
            Some(p) => p,
            None => return Err(crate::engine::no_package()),
        };
        for op in prep {
            match guarded(|| exec_op(pkg, op)) {
                Ok(Ok(())) => {}
                Ok(Err(_)) => return Ok(true), // the state could not be prepared: nothing to decide
                Err(p) => {
                    s.leak();
                    return Err(crate::engine::panic_finding("state preparation", &p));
                }
            }
        }
        // the model does not track catalog tables; re-base the session on what is there now
        let o = s.observe()?;
        s.last = Some(o);
        // a hand-made catalog state that the library cannot even reopen is outside what a
        // rejected call can be blamed for: skip (counted)
        let pkg = match s.pkg.as_mut() {
            Some(p) => p,
            None => return Err(crate::engine::no_package()),
        };
        if !matches!(guarded(|| pkg.flush()), Ok(Ok(()))) || reopen_observe(&s.med.live()).is_err() {
            rep.count("prepared_state_not_reopenable_skipped");
            return Ok(true);
        }
    }
    let before = s.observe()?;
    let pkg = match s.pkg.as_mut() {
        Some(p) => p,
        None => return Err(crate::engine::no_package()),
    };
    let res = guarded(|| -> Result<(), std::io::Error> {
        match call {
            Call::Op(op) | Call::Prepared(_, op) => exec_op(pkg, op),
            Call::ReadStream(n) => pkg.read_stream(n).map(|_| ()),
            Call::Select { table, cols, cond } => {
                let mut q = msi::Select::table(table.clone());
                if !cols.is_empty() {
                    q = q.columns(cols);
                }
                if let Some(e) = cond {
                    q = q.with(crate::exprmodel::lower(e));
                }
                pkg.select_rows(q).map(|_| ())
            }
        }
    });
    match res {
        Err(p) => {
            s.leak();
            return Err(crate::engine::panic_finding(&format!("invalid call {}", fam), &p));
        }
        Ok(Ok(())) => {
            // an unexpected Ok is counted and left to C06 / C07; the state is abandoned
            rep.count("unexpected_ok");
            rep.count(&format!("unexpected_ok:{}", fam));
            return Ok(false);
        }
        Ok(Err(_)) => {}
    }
    rep.count("rejected_calls");
    let after = s.observe()?;
    if let Some(d) = before.diff(&after) {
        return Err(Finding {
            clause: format!("changed/{}/{}", fam, crate::engine::diff_class(&d)),
            what: format!("{} returned an error but the package changed: {}", fam, d),
        });
    }
    // what is read back after saving and reopening
    let pkg = match s.pkg.as_mut() {
        Some(p) => p,
        None => return Err(crate::engine::no_package()),
    };
    match guarded(|| pkg.flush()) {
        Ok(Ok(())) => {}
        Ok(Err(e)) => return Err(Finding { clause: format!("flush-error-after/{}", fam), what: format!("flush after rejected {} failed: {}", fam, e) }),
        Err(p) => {
            s.leak();
            return Err(crate::engine::panic_finding("flush after a rejected call", &p));
        }
    }
    let bytes = s.med.live();
    let re = reopen_observe(&bytes).map_err(|e| Finding { clause: format!("reopen-fails-after/{}", fam), what: format!("after rejected {}: {}", fam, e) })?;
    if let Some(d) = before.diff(&re) {
        return Err(Finding {
            clause: format!("changed-after-reopen/{}/{}", fam, crate::engine::diff_class(&d)),
            what: format!("{} returned an error; after save and reopen the package differs: {}", fam, d),
        });
    }
    // pool accounting via the independent decoder: nothing of the rejected call may be in the file
    let mut live = tokens_in_model(&s.model);
    if let Call::Prepared(prep, _) = call {
        // strings the preparation itself put into the package are legitimately there
        for op in prep {
            live.extend(call_tokens(&Call::Op(op.clone())));
        }
    }
    let dead: Vec<String> = call_tokens(call).into_iter().filter(|t| !live.contains(t)).collect();
    rep.count("saved_images_decoded");
    if let Err(f) = check_image(&bytes, &before, &dead) {
        return Err(Finding { clause: format!("file/{}/{}", fam, f.clause), what: format!("after rejected {}: {}", fam, f.what) });
    }
    Ok(true)
}

fn run_case(seed: u64, case: u64, rep: &mut Report) {
    let mut g = Gen::new(Rng::derive(seed, 4, case), GenCfg { max_tables: 3, invalid_pct: 0, huge_strings: false, ..Default::default() }, case);
    let mut s = match Session::create("Installer") {
        Ok(s) => s,
        Err(_) => return,
    };
    let mon = Monitors::default();
    let mut scratch = Report::new();
    let n_ops = 3 + (case % 12) as usize;
    let mut steps = Vec::new();
    for _ in 0..n_ops {
        let op = g.op(&s.model);
        steps.push(op.to_json());
        if s.apply(&op, &mon, &mut scratch).is_err() {
            s.leak();
            return; // state generation trouble is C01/C03's business
        }
    }
    if case % 5 == 4 {
        let _ = s.close_point(crate::engine::CloseMode::IntoInner, &mut scratch);
    }
    let fams = families(&s, &mut g);
    for (fam, call) in fams.iter() {
        if matches!(call, Call::Prepared(..)) {
            // these change the (catalog) state on purpose: isolated runs only
            continue;
        }
        rep.case(Some(fnv(format!("{}:{}:{}", fam, s.model.tables.len(), s.model.tables.values().map(|t| t.rows.len().min(3)).sum::<usize>()).as_bytes())));
        rep.count(&format!("family:{}", fam.split('/').next().unwrap_or("")));
        match fire(&mut s, fam, call, rep) {
            Ok(true) => {}
            Ok(false) => {
                // the call was accepted: resynchronise by rebuilding the session state from scratch
                return;
            }
            Err(f) => {
                let w = json!({"kind": "state", "seed": seed, "case": case, "family": fam, "call": format!("{:?}", call).chars().take(600).collect::<String>(), "state_steps": steps.iter().rev().take(8).rev().collect::<Vec<_>>()});
                rep.violation(format!("C04/{}", f.clause), f.what, w);
                if s.pkg.is_none() {
                    return;
                }
                // keep going with a fresh state: the package may be half-changed
                return;
            }
        }
    }
}

/// Each family on its own fresh state, so that one violation does not mask the others.
fn run_family_isolated(seed: u64, fam_idx: usize, variant: u64, rep: &mut Report) {
    let case = 1_000_000 + variant;
    let mut g = Gen::new(Rng::derive(seed, 44, case), GenCfg { max_tables: 2, invalid_pct: 0, huge_strings: false, summary: false, ..Default::default() }, case);
    let mut s = match Session::create("Installer") {
        Ok(s) => s,
        Err(_) => return,
    };
    let mut scratch = Report::new();
    for _ in 0..(4 + variant % 5) {
        let op = g.op(&s.model);
        if s.apply(&op, &Monitors::default(), &mut scratch).is_err() {
            s.leak();
            return;
        }
    }
    let fams = families(&s, &mut g);
    if let Some((fam, call)) = fams.get(fam_idx) {
        rep.case(Some(fnv(format!("iso:{}:{}", fam, variant).as_bytes())));
        rep.count("isolated_family_runs");
        if let Err(f) = fire(&mut s, fam, call, rep) {
            let w = json!({"kind": "isolated", "seed": seed, "family_index": fam_idx, "variant": variant, "family": fam, "call": format!("{:?}", call).chars().take(600).collect::<String>()});
            rep.violation(format!("C04/{}", f.clause), f.what, w);
            s.leak();
        }
    }
}

/// A package whose `_Validation` table was uncatalogued through the API (its rows in `_Tables` / `_Columns`
/// deleted) and which was then saved and reopened: the table object is gone, its stream is still there.
/// Calls that fail in this state must change nothing either.
fn uncatalogued_validation(rep: &mut Report, only: Option<&str>) {
    use crate::medium::Medium;
    use crate::observe::observe;
    type Pkg = msi::Package<crate::medium::Handle>;
    fn std_cols(first: &str, n: usize) -> Vec<msi::Column> {
        let mut v = vec![
            msi::Column::build(first).primary_key().id_string(32),
            msi::Column::build("Column").primary_key().id_string(32),
            msi::Column::build("Nullable").enum_values(&["Y", "N"]).string(4),
            msi::Column::build("MinValue").nullable().int32(),
            msi::Column::build("MaxValue").nullable().int32(),
            msi::Column::build("KeyTable").nullable().id_string(255),
            msi::Column::build("KeyColumn").nullable().range(1, 32).int16(),
            msi::Column::build("Category").nullable().string(32),
            msi::Column::build("Set").nullable().text_string(255),
            msi::Column::build("Description").nullable().text_string(255),
            msi::Column::build("Extra").nullable().int16(),
        ];
        v.truncate(n);
        v
    }
    type Call = fn(&mut Pkg) -> std::io::Result<()>;
    // (name, optional first call that must succeed for the scenario to apply, call under test)
    let scenarios: [(&str, Option<Call>, Call); 11] = [
        // the user table T itself was uncatalogued too (see `prep` below): its stream is an orphan in the container
        ("recreate-uncatalogued-table-with-unstorable-column", None, |p| p.create_table("T", vec![msi::Column::build("K").primary_key().int16(), msi::Column::build("Wide").nullable().string(300)])),
        ("recreate-uncatalogued-table-with-long-column-name", None, |p| p.create_table("T", vec![msi::Column::build("K").primary_key().int16(), msi::Column::build("C".repeat(40)).nullable().int16()])),
        // _Validation kept, but its own description narrowed by hand (fewer categories than the built-in list)
        ("create-table-with-category-outside-narrowed-validation", None, |p| p.create_table("G", vec![msi::Column::build("K").primary_key().int16(), msi::Column::build("Id").nullable().category(msi::Category::Guid).string(38)])),
        ("drop-user-table", None, |p| p.drop_table("T")),
        ("create-user-table", None, |p| p.create_table("N", vec![msi::Column::build("K").primary_key().int16(), msi::Column::build("E").nullable().enum_values(&["a", "b"]).string(4)])),
        ("create-_Validation-3-columns", None, |p| p.create_table("_Validation", std_cols("Table", 3))),
        ("create-_Validation-9-columns", None, |p| p.create_table("_Validation", std_cols("Table", 9))),
        ("create-_Validation-11-columns", None, |p| p.create_table("_Validation", std_cols("Table", 11))),
        ("create-_Validation-standard", None, |p| p.create_table("_Validation", std_cols("Table", 10))),
        ("drop-after-odd-_Validation", Some(|p| p.create_table("_Validation", std_cols("Tbl", 10))), |p| p.drop_table("T")),
        ("create-after-odd-_Validation", Some(|p| p.create_table("_Validation", std_cols("Tbl", 10))), |p| p.create_table("N", vec![msi::Column::build("K").primary_key().int16()])),
    ];
    for (name, first, call) in scenarios {
        if only.map(|o| o != name).unwrap_or(false) {
            continue;
        }
        let med = Medium::new();
        let prepared = guarded(|| -> Result<Pkg, String> {
            let mut p = msi::Package::create(msi::PackageType::Installer, med.handle()).map_err(|e| e.to_string())?;
            p.create_table("T", vec![msi::Column::build("K").primary_key().int16(), msi::Column::build("V").nullable().string(0)]).map_err(|e| e.to_string())?;
            p.insert_rows(msi::Insert::into("T").row(vec![msi::Value::Int(1), msi::Value::from("t0x1 one")]).row(vec![msi::Value::Int(2), msi::Value::from("t0x2 two")])).map_err(|e| e.to_string())?;
            if name.starts_with("recreate-uncatalogued-table") {
                for (t, c) in [("_Tables", "Name"), ("_Columns", "Table"), ("_Validation", "Table")] {
                    p.delete_rows(msi::Delete::from(t).with(msi::Expr::col(c).eq(msi::Expr::string("T")))).map_err(|e| e.to_string())?;
                }
            } else if name.contains("narrowed-validation") {
                p.update_rows(
                    msi::Update::table("_Validation")
                        .set("Set", msi::Value::from("Text;Identifier;Formatted"))
                        .with(msi::Expr::col("Table").eq(msi::Expr::string("_Validation")).and(msi::Expr::col("Column").eq(msi::Expr::string("Category")))),
                )
                .map_err(|e| e.to_string())?;
            } else {
                p.delete_rows(msi::Delete::from("_Tables").with(msi::Expr::col("Name").eq(msi::Expr::string("_Validation")))).map_err(|e| e.to_string())?;
                p.delete_rows(msi::Delete::from("_Columns").with(msi::Expr::col("Table").eq(msi::Expr::string("_Validation")))).map_err(|e| e.to_string())?;
            }
            p.into_inner().map_err(|e| e.to_string())?;
            let mut p = msi::Package::open(med.handle()).map_err(|e| e.to_string())?;
            if let Some(f) = first {
                f(&mut p).map_err(|e| format!("first call refused: {}", e))?;
                p.flush().map_err(|e| e.to_string())?;
            }
            Ok(p)
        });
        rep.count("uncatalogued_validation_scenarios");
        let w = json!({"kind": "uncatalogued-validation", "name": name});
        let mut pkg = match prepared {
            Ok(Ok(p)) => p,
            Ok(Err(_)) => {
                rep.count("uncatalogued_validation_state_not_reached");
                rep.case(None);
                continue;
            }
            Err(p) => {
                rep.violation(format!("C04/panic/{}", p.signature()), format!("preparing the uncatalogued-_Validation state panicked: {}", p.message), w);
                continue;
            }
        };
        rep.case(Some(fnv(format!("uncat:{}", name).as_bytes())));
        let before = match guarded(|| observe(&mut pkg)) {
            Ok(Ok((o, _))) => o,
            _ => {
                std::mem::forget(pkg);
                continue;
            }
        };
        // every stream of the container (also those no catalog row mentions), by stored name and length
        let _ = guarded(|| pkg.flush());
        let entries_before = crate::fmt_codec::decode(&med.live()).ok().map(|d| d.entries);
        match guarded(|| call(&mut pkg)) {
            Err(p) => {
                std::mem::forget(pkg);
                rep.violation(format!("C04/panic/{}", p.signature()), format!("[{}] panicked: {}", name, p.message), w);
            }
            Ok(Ok(())) => rep.count("uncatalogued_validation_call_accepted"),
            Ok(Err(e)) => {
                rep.count("uncatalogued_validation_call_refused");
                let after = guarded(|| observe(&mut pkg));
                let live = match after {
                    Ok(Ok((o, _))) => before.diff(&o),
                    Ok(Err(e2)) => Some(format!("the package can no longer be read: {}", e2)),
                    Err(p) => Some(format!("reading the package panics: {}", p.message)),
                };
                if let Some(d) = live {
                    rep.violation(format!("C04/uncatalogued-validation/{}/changed", name), format!("[{}] returned an error ({}) but changed the package: {}", name, e, d), w);
                    std::mem::forget(pkg);
                    continue;
                }
                let saved = guarded(|| pkg.flush()).ok().and_then(|r| r.ok()).map(|_| reopen_observe(&med.live()));
                if let (Some(eb), Ok(d)) = (&entries_before, crate::fmt_codec::decode(&med.live())) {
                    if *eb != d.entries {
                        let gone: Vec<&String> = eb.iter().filter(|x| !d.entries.contains(x)).map(|x| &x.0).collect();
                        let new: Vec<&String> = d.entries.iter().filter(|x| !eb.contains(x)).map(|x| &x.0).collect();
                        rep.violation(
                            format!("C04/uncatalogued-validation/{}/container-entries-changed", name),
                            format!("[{}] returned an error ({}) but the container's streams changed: gone or resized {:?}, new or resized {:?}", name, e, gone, new),
                            w.clone(),
                        );
                    }
                }
                match saved {
                    Some(Ok(o)) => {
                        if let Some(d) = before.diff(&o) {
                            rep.violation(format!("C04/uncatalogued-validation/{}/changed-after-reopen", name), format!("[{}] returned an error ({}); after save and reopen: {}", name, e, d), w);
                        }
                    }
                    Some(Err(e2)) => rep.violation(format!("C04/uncatalogued-validation/{}/reopen-fails", name), format!("[{}] returned an error ({}); the saved package no longer opens: {}", name, e, e2), w),
                    None => {}
                }
            }
        }
    }
}

pub fn run(ctx: &Ctx) -> Report {
    if let Some(w) = &ctx.replay {
        let mut rep = Report::new();
        match w["kind"].as_str() {
            Some("capacity") => {
                let which = crate::props::c20::which_of(w["limit"].as_str(), w["mode"].as_str());
                crate::props::c20::capacity_for("C04", which, &mut rep);
            }
            Some("uncatalogued-validation") => uncatalogued_validation(&mut rep, w["name"].as_str()),
            Some("state") => run_case(w["seed"].as_u64().unwrap_or(ctx.seed), w["case"].as_u64().unwrap_or(0), &mut rep),
            Some("isolated") => run_family_isolated(
                w["seed"].as_u64().unwrap_or(ctx.seed),
                w["family_index"].as_u64().unwrap_or(0) as usize,
                w["variant"].as_u64().unwrap_or(0),
                &mut rep,
            ),
            _ => rep.inconclusive.push("unknown replay kind".into()),
        }
        return rep;
    }
    let n_states = ctx.budget(3_000, 60_000);
    let variants = ctx.budget(10, 100);
    let seed = ctx.seed;
    let mut rep = parallel(ctx.threads, |shard, n| {
        let mut rep = Report::new();
        // refused calls at the capacity limits (row limit, full pool, nearly full pool)
        for (i, which) in [0usize, 1, 2, 5, 7].into_iter().enumerate() {
            if (n >= 5 && shard == i) || (n < 5 && shard == 0) {
                crate::props::c20::capacity_for("C04", which, &mut rep);
            }
        }
        if shard == 5 % n {
            uncatalogued_validation(&mut rep, None);
        }
        let mut k = 0usize;
        for fam_idx in 0..90usize {
            for v in 0..variants {
                k += 1;
                if k % n == shard {
                    run_family_isolated(seed, fam_idx, v, &mut rep);
                }
            }
        }
        for case in (shard as u64..n_states).step_by(n) {
            run_case(seed, case, &mut rep);
            rep.count("states");
        }
        rep
    });
    rep.sample(json!({"family": "create/late-column-name-40", "call": "create_table(fresh, [K int16 key, <40-character column name> int16])", "oracle": "Err => observation, reopened observation and decoded file all equal the pre-call state"}));
    rep.sample(json!({"family": "insert/invalid-value-last-row-of-batch", "call": "insert_rows(T, [valid row, valid row, row with a wrong-typed last cell])"}));
    rep.sample(json!({"family": "update/key-collision", "call": "update_rows(T SET <every key column> = <key of row 0>) with >= 2 rows"}));
    rep
}
