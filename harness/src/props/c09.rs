//! C09 — no input file can make the library panic.
//!
//! Panic supervisor around an *exercise script* applied to every input;
//! cases run in worker subprocesses (abort / stack overflow / hang
//! containment).  Inputs: structure-aware corruptions of valid packages
//! (through the independent codec's knowledge of the layout) and byte-level
//! mutations.

use crate::absgen::{encode_absdb, gen_absdb, AbsCfg};
use crate::engine::{Monitors, Session};
use crate::fmt_codec::{self, RawDb};
use crate::gen::{Gen, GenCfg};
use crate::panicmon::{guarded, PanicInfo};
use crate::prng::{fnv, Rng};
use crate::report::Report;
use crate::Ctx;
use serde_json::json;
use std::io::{Cursor, Read, Write};

// ---------------------------------------------------------------- seeds

pub struct Seed {
    pub bytes: Vec<u8>,
    pub raw: RawDb,
    pub origin: String,
}

pub fn build_seeds(seed: u64) -> Vec<Seed> {
    let mut out = Vec::new();
    // library-written packages
    for case in 0..10u64 {
        let mut g = Gen::new(Rng::derive(seed, 91, case), GenCfg { invalid_pct: 0, huge_strings: case == 3, big_batch_one_in: if case == 4 { 10 } else { 0 }, ..Default::default() }, case);
        let mut s = match Session::create(["Installer", "Patch", "Transform"][(case % 3) as usize]) {
            Ok(s) => s,
            Err(_) => continue,
        };
        let mut scratch = Report::new();
        let mut ok = true;
        for _ in 0..(4 + case as usize) {
            let op = g.op(&s.model);
            if s.apply(&op, &Monitors::default(), &mut scratch).is_err() {
                ok = false;
                break;
            }
        }
        if !ok {
            s.leak();
            continue;
        }
        if let Some(pkg) = s.pkg.take() {
            if pkg.into_inner().is_ok() {
                let bytes = s.med.live();
                if let Ok(raw) = fmt_codec::decode(&bytes) {
                    out.push(Seed { bytes, raw, origin: format!("library history {}", case) });
                }
            }
        }
    }
    // library-written packages with extreme summary values (the FFI layer formats them)
    for (i, ns) in [
        253_402_300_800i128 * 1_000_000_000,          // year 10000
        1_600_000_000_000i128 * 1_000_000_000,        // year ~52000
        (-11_644_473_600i128) * 1_000_000_000,        // 1601-01-01
        (-11_644_473_600i128 + 1) * 1_000_000_000 - 1, // just after
        0,
    ]
    .iter()
    .enumerate()
    {
        let med = crate::medium::Medium::new();
        if let Ok(mut p) = msi::Package::create(msi::PackageType::Installer, med.handle()) {
            p.summary_info_mut().set_creation_time(crate::model::ns_to_time(*ns));
            p.summary_info_mut().set_word_count(i32::MIN);
            p.summary_info_mut().set_languages(&[msi::Language::from_code(65535), msi::Language::from_code(0)]);
            p.summary_info_mut().set_arch("x64,Intel;é");
            if p.flush().is_ok() {
                let bytes = med.live();
                if let Ok(raw) = fmt_codec::decode(&bytes) {
                    out.push(Seed { bytes, raw, origin: format!("library, extreme summary {}", i) });
                }
            }
        }
    }
    // independently encoded databases, one per encoder option plus random ones
    let mut forced: Vec<&'static str> = crate::props::c02::FORCED.to_vec();
    forced.push("40-columns");
    for (i, f) in forced.iter().enumerate() {
        let mut rng = Rng::derive(seed, 92, i as u64);
        let db = gen_absdb(&mut rng, 900 + i as u64, &AbsCfg { max_tables: 3, max_cols: 5, max_rows: 8 }, if *f == "plain" { None } else { Some(f) });
        if let Ok(bytes) = encode_absdb(&db) {
            if let Ok(raw) = fmt_codec::decode(&bytes) {
                out.push(Seed { bytes, raw, origin: format!("encoded ({})", f) });
            }
        }
    }
    out
}

// ---------------------------------------------------------------- mutators

fn with_container(bytes: &[u8], f: impl FnOnce(&mut cfb::CompoundFile<Cursor<Vec<u8>>>) -> std::io::Result<()>) -> Option<Vec<u8>> {
    let mut comp = cfb::CompoundFile::open(Cursor::new(bytes.to_vec())).ok()?;
    f(&mut comp).ok()?;
    comp.flush().ok()?;
    Some(comp.into_inner().into_inner())
}

fn replace_stream(bytes: &[u8], raw_name: &str, data: &[u8]) -> Option<Vec<u8>> {
    with_container(bytes, |c| {
        let mut s = c.create_stream(format!("/{}", raw_name))?;
        s.write_all(data)?;
        s.flush()
    })
}

fn table_raw_name(t: &str) -> String {
    fmt_codec::pack_name(t, true)
}

/// Overwrites one cell of a table stream.
fn corrupt_cell(seed: &Seed, rng: &mut Rng) -> Option<(Vec<u8>, String)> {
    let names: Vec<&String> = seed.raw.tables.keys().collect();
    if names.is_empty() {
        return None;
    }
    // catalog tables are picked more often
    let tname: String = match rng.below(6) {
        0 => "_Tables".into(),
        1 | 2 => "_Columns".into(),
        3 if seed.raw.tables.contains_key("_Validation") => "_Validation".into(),
        _ => (*rng.pick(&names)).clone(),
    };
    let t = seed.raw.tables.get(&tname)?;
    if t.rows.is_empty() || t.cols.is_empty() {
        return None;
    }
    let long = seed.raw.pool.long_refs;
    let mut data = seed.raw.table_streams.get(&tname)?.clone();
    let n = t.rows.len();
    let ci = rng.usize(t.cols.len());
    let ri = rng.usize(n);
    let mut off = 0usize;
    for c in &t.cols[..ci] {
        off += c.width(long)? * n;
    }
    let w = t.cols[ci].width(long)?;
    off += ri * w;
    if off + w > data.len() {
        return None;
    }
    let pool_n = seed.raw.pool.entries.len() as u32;
    let (val, what): (u32, &str) = match rng.below(8) {
        0 => (0, "null"),
        1 => (pool_n + 1 + rng.below(50) as u32, "dangling reference"),
        2 => (0xFF_FFFF, "huge reference / extreme number"),
        3 => (0xFFFF, "0xFFFF"),
        4 => (1, "reference 1 / most negative number"),
        5 => (0x8000 + rng.below(40) as u32, "small number"),
        6 => (rng.next_u64() as u32, "random"),
        _ => (0x8000_0000u32.wrapping_add(rng.below(70) as u32), "32-bit small number"),
    };
    for k in 0..w {
        data[off + k] = (val >> (8 * k)) as u8;
    }
    let out = replace_stream(&seed.bytes, &table_raw_name(&tname), &data)?;
    Some((out, format!("cell ({}, row {}, column {:?}) := {}", tname, ri, t.cols[ci].name, what)))
}

fn corrupt_stream_shape(seed: &Seed, rng: &mut Rng) -> Option<(Vec<u8>, String)> {
    let names: Vec<&String> = seed.raw.table_streams.keys().collect();
    let tname = (*rng.pick(&names)).clone();
    let data = seed.raw.table_streams.get(&tname)?.clone();
    match rng.below(4) {
        0 => {
            let cut = 1 + rng.usize(data.len().max(1));
            let d = data[..data.len().saturating_sub(cut)].to_vec();
            Some((replace_stream(&seed.bytes, &table_raw_name(&tname), &d)?, format!("table stream {} truncated by {} bytes", tname, cut)))
        }
        1 => {
            let mut d = data.clone();
            let extra = 1 + rng.usize(9);
            for _ in 0..extra {
                d.push(rng.next_u64() as u8);
            }
            Some((replace_stream(&seed.bytes, &table_raw_name(&tname), &d)?, format!("table stream {} extended by {} bytes", tname, extra)))
        }
        2 => {
            let raw = table_raw_name(&tname);
            let out = with_container(&seed.bytes, |c| c.remove_stream(format!("/{}", raw)))?;
            Some((out, format!("table stream {} removed", tname)))
        }
        _ => Some((replace_stream(&seed.bytes, &table_raw_name(&tname), &[])?, format!("table stream {} emptied", tname))),
    }
}

fn corrupt_pool(seed: &Seed, rng: &mut Rng) -> Option<(Vec<u8>, String)> {
    let mut pool = seed.raw.table_streams.get("_StringPool")?.clone();
    if pool.len() < 4 {
        return None;
    }
    let n_entries = (pool.len() - 4) / 4;
    let what;
    match rng.below(9) {
        0 => {
            let cp: u32 = *rng.pick(&[12345u32, 1, 437, 0x7fff_ffff, 65000, 1200]);
            let old = u32::from_le_bytes([pool[0], pool[1], pool[2], pool[3]]);
            pool[..4].copy_from_slice(&(cp | (old & 0x8000_0000)).to_le_bytes());
            what = format!("pool code page := {}", cp);
        }
        1 => {
            pool[3] ^= 0x80;
            what = "long-reference bit flipped".to_string();
        }
        2 if n_entries > 0 => {
            let e = rng.usize(n_entries);
            pool[4 + 4 * e..6 + 4 * e].copy_from_slice(&0xFFFFu16.to_le_bytes());
            what = format!("pool entry {} length := 65535 (beyond the data)", e + 1);
        }
        3 if n_entries > 0 => {
            let e = rng.usize(n_entries);
            pool[6 + 4 * e..8 + 4 * e].copy_from_slice(&0u16.to_le_bytes());
            what = format!("pool entry {} refcount := 0 (text kept)", e + 1);
        }
        4 if n_entries > 0 => {
            let e = rng.usize(n_entries);
            pool[4 + 4 * e..6 + 4 * e].copy_from_slice(&0u16.to_le_bytes());
            pool[6 + 4 * e..8 + 4 * e].copy_from_slice(&0xFFFFu16.to_le_bytes());
            what = format!("pool entry {} := long-string escape with high word 0xFFFF", e + 1);
        }
        5 if n_entries > 0 => {
            let e = rng.usize(n_entries);
            pool[6 + 4 * e..8 + 4 * e].copy_from_slice(&0xFFFFu16.to_le_bytes());
            what = format!("pool entry {} refcount := 65535", e + 1);
        }
        6 if n_entries > 0 => {
            let e = rng.usize(n_entries);
            pool[6 + 4 * e..8 + 4 * e].copy_from_slice(&1u16.to_le_bytes());
            what = format!("pool entry {} refcount := 1 (under-counted)", e + 1);
        }
        7 => {
            let cut = 1 + rng.usize(7);
            pool.truncate(pool.len().saturating_sub(cut));
            what = format!("pool truncated by {} bytes", cut);
        }
        _ => {
            // string data shortened: lengths run past the data
            let data = seed.raw.table_streams.get("_StringData")?.clone();
            let cut = 1 + rng.usize(data.len().max(1));
            let d = data[..data.len().saturating_sub(cut)].to_vec();
            return Some((replace_stream(&seed.bytes, &table_raw_name("_StringData"), &d)?, format!("_StringData truncated by {} bytes", cut)));
        }
    }
    Some((replace_stream(&seed.bytes, &table_raw_name("_StringPool"), &pool)?, what))
}

/// Rebuilds `_StringPool` / `_StringData` from the decoded entries (lengths consistent with the texts).
fn rebuild_pool(seed: &Seed, codepage_word: u32, entries: &[(Vec<u8>, u16)]) -> Option<Vec<u8>> {
    let mut pool = codepage_word.to_le_bytes().to_vec();
    let mut data = Vec::new();
    for (bytes, rc) in entries {
        if bytes.len() > 0xFFFF {
            pool.extend_from_slice(&0u16.to_le_bytes());
            pool.extend_from_slice(&((bytes.len() >> 16) as u16).to_le_bytes());
        }
        pool.extend_from_slice(&(bytes.len() as u16).to_le_bytes());
        pool.extend_from_slice(&rc.to_le_bytes());
        data.extend_from_slice(bytes);
    }
    let out = replace_stream(&seed.bytes, &table_raw_name("_StringPool"), &pool)?;
    replace_stream(&out, &table_raw_name("_StringData"), &data)
}

/// Structure-preserving pool edits: the text of one entry replaced (all cells that refer to it follow:
/// a table, column, category or key-table name changes everywhere at once), or the pool declared to be in
/// another *valid* code page while its bytes stay.
fn corrupt_pool_text(seed: &Seed, rng: &mut Rng) -> Option<(Vec<u8>, String)> {
    let p = &seed.raw.pool;
    if p.entries.is_empty() {
        return None;
    }
    let mut entries: Vec<(Vec<u8>, u16)> = p.entries.iter().map(|e| (e.bytes.clone(), e.refcount)).collect();
    let word = p.codepage_id | if p.long_refs { 0x8000_0000 } else { 0 };
    if rng.chance(1, 3) {
        // another valid page; a few bytes >= 0x80 make sure the decoder of that page sees non-ASCII input
        let ids = crate::cpora::all_ids();
        let id = if rng.chance(1, 3) { 20127 } else { *rng.pick(&ids) } as u32;
        let k = rng.usize(3);
        for _ in 0..k {
            let i = rng.usize(entries.len());
            if !entries[i].0.is_empty() {
                let j = rng.usize(entries[i].0.len());
                entries[i].0[j] = 0x80 | (rng.next_u64() as u8);
            }
        }
        let out = rebuild_pool(seed, id | (word & 0x8000_0000), &entries)?;
        return Some((out, format!("pool code page := {} (valid) with {} byte(s) >= 0x80 in the string data", id, k)));
    }
    // pick an entry; names used by the catalogs are picked more often
    let catalog_names: Vec<usize> = p
        .entries
        .iter()
        .enumerate()
        .filter(|(_, e)| seed.raw.tables.contains_key(&e.text) || seed.raw.tables.values().any(|t| t.cols.iter().any(|c| c.name == e.text)))
        .map(|(i, _)| i)
        .collect();
    let i = if !catalog_names.is_empty() && rng.chance(2, 3) { *rng.pick(&catalog_names) } else { rng.usize(entries.len()) };
    let texts: Vec<Vec<u8>> = vec![
        "p".repeat(60).into_bytes(),
        "p".repeat(61).into_bytes(),
        "p".repeat(62).into_bytes(),
        "p".repeat(63).into_bytes(),
        "T".repeat(31).into_bytes(),
        "T".repeat(32).into_bytes(),
        "T".repeat(33).into_bytes(),
        "T".repeat(64).into_bytes(),
        "T".repeat(65).into_bytes(),
        "T".repeat(300).into_bytes(),
        "é".repeat(31).into_bytes(),
        "é".repeat(32).into_bytes(),
        Vec::new(),
        b"_Tables".to_vec(),
        b"_Columns".to_vec(),
        b"_Validation".to_vec(),
        b"_StringPool".to_vec(),
        b"9x".to_vec(),
        b"a b".to_vec(),
        b"a!b".to_vec(),
        b"a/b".to_vec(),
        b"a\\b".to_vec(),
        b"a:b".to_vec(),
        b"a;b;c".to_vec(),
        b"Y".to_vec(),
        b"N".to_vec(),
        b"Identifier".to_vec(),
        b"NoSuchCategory".to_vec(),
        vec![0xFF, 0xFE, b'a'],
        vec![0xE9],
        vec![0],
        "\u{4840}x".as_bytes().to_vec(),
        "\u{5}SummaryInformation".as_bytes().to_vec(),
    ];
    let t = rng.pick(&texts).clone();
    let old = String::from_utf8_lossy(&entries[i].0).chars().take(24).collect::<String>();
    let shown = String::from_utf8_lossy(&t).chars().take(24).collect::<String>();
    entries[i].0 = t.clone();
    let out = rebuild_pool(seed, word, &entries)?;
    Some((out, format!("pool entry {} text {:?} := {:?} ({} bytes)", i + 1, old, shown, t.len())))
}

/// Removes or duplicates one row of a catalog table (the streams are stored column by column).
fn corrupt_catalog_rows(seed: &Seed, rng: &mut Rng) -> Option<(Vec<u8>, String)> {
    let tname = *rng.pick(&["_Columns", "_Columns", "_Tables", "_Validation"]);
    let t = seed.raw.tables.get(tname)?;
    let long = seed.raw.pool.long_refs;
    let data = seed.raw.table_streams.get(tname)?.clone();
    let n = t.rows.len();
    if n == 0 {
        return None;
    }
    let widths: Vec<usize> = t.cols.iter().map(|c| c.width(long)).collect::<Option<Vec<_>>>()?;
    if widths.iter().sum::<usize>() * n != data.len() {
        return None;
    }
    // rows that describe the catalog tables themselves are picked more often
    let own: Vec<usize> = (0..n)
        .filter(|&r| matches!(seed.raw.cell_value(t.rows[r][0]), crate::types::V::Str(ref s) if s.starts_with('_')))
        .collect();
    let r = if !own.is_empty() && rng.chance(2, 3) { *rng.pick(&own) } else { rng.usize(n) };
    let dup = rng.chance(1, 4);
    let mut out = Vec::with_capacity(data.len());
    let mut off = 0usize;
    for w in &widths {
        for row in 0..n {
            let cell = &data[off + row * w..off + (row + 1) * w];
            if row == r {
                if dup {
                    out.extend_from_slice(cell);
                    out.extend_from_slice(cell);
                }
            } else {
                out.extend_from_slice(cell);
            }
        }
        off += w * n;
    }
    let first = format!("{:?}", t.rows[r].iter().take(3).map(|c| seed.raw.cell_value(*c)).collect::<Vec<_>>());
    let res = replace_stream(&seed.bytes, &table_raw_name(tname), &out)?;
    Some((res, format!("{} row {} {} {}", tname, r, first.chars().take(60).collect::<String>(), if dup { "duplicated" } else { "removed" })))
}

fn corrupt_propset(seed: &Seed, rng: &mut Rng) -> Option<(Vec<u8>, String)> {
    let mut ps = seed.raw.summary_raw.clone()?;
    if ps.len() < 56 {
        return None;
    }
    let put32 = |b: &mut Vec<u8>, at: usize, v: u32| {
        if at + 4 <= b.len() {
            b[at..at + 4].copy_from_slice(&v.to_le_bytes());
        }
    };
    let so = u32::from_le_bytes([ps[44], ps[45], ps[46], ps[47]]) as usize;
    let count = if so + 8 <= ps.len() { u32::from_le_bytes([ps[so + 4], ps[so + 5], ps[so + 6], ps[so + 7]]) as usize } else { 0 };
    let what;
    match rng.below(12) {
        0 => {
            ps[0] = 0;
            what = "bad byte-order mark".to_string();
        }
        1 => {
            ps[2] = 7;
            what = "format version 7".to_string();
        }
        2 => {
            ps[6] = 9;
            what = "OS kind 9".to_string();
        }
        3 => {
            put32(&mut ps, 24, 0);
            what = "reserved/section count 0".to_string();
        }
        4 => {
            let v = *rng.pick(&[0u32, 3, 0xFFFF_FFFF, 0x7FFF_FFF0, ps.len() as u32 - 2]);
            put32(&mut ps, 44, v);
            what = format!("section offset := {}", v);
        }
        5 => {
            let v = *rng.pick(&[0xFFFF_FFFFu32, 0x1000_0000, 100_000, (count as u32) + 1]);
            put32(&mut ps, so + 4, v);
            what = format!("property count := {}", v);
        }
        6 if count > 0 => {
            let i = rng.usize(count);
            let v = *rng.pick(&[0u32, 1, 0xFFFF_FFFF, 0x7FFF_FFFF, ps.len() as u32, ps.len() as u32 - 3]);
            put32(&mut ps, so + 12 + 8 * i, v);
            what = format!("property {} offset := {}", i, v);
        }
        7 if count > 0 => {
            // a string length beyond the stream / a huge one
            let i = rng.usize(count);
            let off = u32::from_le_bytes([ps[so + 12 + 8 * i], ps[so + 13 + 8 * i], ps[so + 14 + 8 * i], ps[so + 15 + 8 * i]]) as usize;
            let v = *rng.pick(&[0xFFFF_FFFFu32, 0x7FFF_FFFF, 0, 100_000]);
            put32(&mut ps, so + off + 4, v);
            what = format!("property {} length/value word := {}", i, v);
        }
        8 if count > 0 => {
            let i = rng.usize(count);
            let off = u32::from_le_bytes([ps[so + 12 + 8 * i], ps[so + 13 + 8 * i], ps[so + 14 + 8 * i], ps[so + 15 + 8 * i]]) as usize;
            let v = *rng.pick(&[5u32, 8, 31, 65, 0xFFFF_FFFF, 0x101E]);
            put32(&mut ps, so + off, v);
            what = format!("property {} type := {}", i, v);
        }
        9 if count > 1 => {
            // duplicate property id
            let id0 = [ps[so + 8], ps[so + 9], ps[so + 10], ps[so + 11]];
            ps[so + 16..so + 20].copy_from_slice(&id0);
            what = "duplicate property id".to_string();
        }
        10 if count > 0 => {
            // code-page property of the wrong type: make the first property id 1 with type LPSTR
            put32(&mut ps, so + 8, 1);
            let off = u32::from_le_bytes([ps[so + 12], ps[so + 13], ps[so + 14], ps[so + 15]]) as usize;
            put32(&mut ps, so + off, 30);
            what = "code-page property of type LPSTR".to_string();
        }
        _ => {
            let cut = 1 + rng.usize(ps.len() - 1);
            ps.truncate(ps.len() - cut);
            what = format!("summary stream truncated by {} bytes", cut);
        }
    }
    Some((replace_stream(&seed.bytes, "\u{5}SummaryInformation", &ps)?, what))
}

/// Rebuilds the summary stream with one string property replaced by adversarial text.
fn corrupt_summary_text(seed: &Seed, rng: &mut Rng) -> Option<(Vec<u8>, String)> {
    let raw = seed.raw.summary_raw.as_ref()?;
    let ps = crate::propset_codec::parse(raw);
    if !ps.problems.is_empty() {
        return None;
    }
    let mut props: Vec<(u32, crate::propset_codec::PVal)> = ps.props.iter().map(|(k, v)| (*k, v.1.clone())).collect();
    let texts: [&str; 26] = [
        "{", "}", "{}", "{é", "é}", "{34AB5C53-9B30-4E14-AEF0-2C1C7BA826Cé}", "{{34AB5C53-9B30-4E14-AEF0-2C1C7BA826C0}}", "", ";", ";;", ",", ";,", "x64;", ";1033,,9", ";-1",
        ";99999999999", "x64;1033;1036", ";65536", "Intel;0x409", "\u{feff}", "é", "日本", "x;\u{0}", ";4294967295,65535", "{00000000-0000-0000-0000-00000000000", "a;b;c",
    ];
    let id = *rng.pick(&[9u32, 9, 7, 7, 2, 3, 4, 6, 18]);
    let t = *rng.pick(&texts);
    let val = crate::propset_codec::PVal::LpStr(t.as_bytes().to_vec());
    match props.iter_mut().find(|p| p.0 == id) {
        Some(p) => p.1 = val,
        None => props.push((id, val)),
    }
    let bytes = crate::propset_codec::encode(&props, &crate::propset_codec::PsEncOptions::default());
    Some((replace_stream(&seed.bytes, "\u{5}SummaryInformation", &bytes)?, format!("summary property {} := text {:?}", id, t)))
}

/// Adds a stream whose stored (raw) name is something the library itself would never write.
fn odd_stream_name(seed: &Seed, rng: &mut Rng) -> Option<(Vec<u8>, String)> {
    let names: [String; 12] = [
        "\u{4840}".into(),
        "a\u{4840}".into(),
        "\u{4840}\u{4840}x".into(),
        "\u{3b3f}\u{4840}\u{4836}".into(),
        "\u{47ff}\u{4800}".into(),
        "\u{483f}\u{4840}".into(),
        "\u{3800}".repeat(31),
        "\u{4840}".repeat(31),
        "\u{5}".into(),
        "\u{5}\u{4840}Summary".into(),
        "\u{4841}\u{37ff}".into(),
        "x\u{0}y".into(),
    ];
    let n = rng.pick(&names).clone();
    let out = with_container(&seed.bytes, |c| {
        let mut s = c.create_stream(format!("/{}", n))?;
        s.write_all(b"odd")?;
        s.flush()
    })?;
    Some((out, format!("extra stream with stored name {:?}", n)))
}

fn corrupt_misc(seed: &Seed, rng: &mut Rng) -> Option<(Vec<u8>, String)> {
    match rng.below(8) {
        4 | 5 => return odd_stream_name(seed, rng),
        6 | 7 => return corrupt_summary_text(seed, rng),
        _ => {}
    }
    match rng.below(4) {
        0 => {
            let id = uuid::Uuid::from_u128(rng.next_u64() as u128);
            Some((with_container(&seed.bytes, |c| c.set_storage_clsid("/", id))?, "wrong root class id".into()))
        }
        1 => Some((with_container(&seed.bytes, |c| c.remove_stream("/\u{5}SummaryInformation"))?, "summary stream removed".into())),
        2 => Some((with_container(&seed.bytes, |c| c.create_storage("/Sub").and_then(|_| c.create_stream("/Sub/inner").map(|_| ())))?, "extra storage with a stream".into())),
        _ => {
            // a table stream for a table that _Tables does not list, and a storage where a table stream should be
            let name = fmt_codec::pack_name("Ghost", true);
            Some((replace_stream(&seed.bytes, &name, &[1, 2, 3, 4, 5])?, "orphan table stream".into()))
        }
    }
}

fn byte_level(seeds: &[Seed], rng: &mut Rng) -> (Vec<u8>, String) {
    let s = rng.pick(seeds);
    let mut b = s.bytes.clone();
    match rng.below(8) {
        0..=2 => {
            let k = 1 + rng.usize(3);
            for _ in 0..k {
                let i = rng.usize(b.len());
                b[i] = rng.next_u64() as u8;
            }
            (b, format!("{} byte substitutions", k))
        }
        3 => {
            let k = 1 + rng.usize(4);
            for _ in 0..k {
                let i = rng.usize(b.len());
                b[i] ^= 1 << rng.below(8);
            }
            (b, format!("{} bit flips", k))
        }
        4 => {
            let n = rng.usize(b.len());
            b.truncate(n);
            (b, format!("truncated to {} bytes", n))
        }
        5 => {
            let o = rng.pick(seeds);
            let cut = rng.usize(b.len().min(o.bytes.len()));
            let cut = cut / 512 * 512;
            let mut out = b[..cut].to_vec();
            out.extend_from_slice(&o.bytes[cut..]);
            (out, format!("splice of two seeds at {}", cut))
        }
        6 => {
            // corrupt the header / FAT region specifically
            let k = 1 + rng.usize(3);
            for _ in 0..k {
                let i = rng.usize(b.len().min(1536));
                b[i] = rng.next_u64() as u8;
            }
            (b, "header/FAT bytes changed".to_string())
        }
        _ => {
            let n = rng.usize(600);
            ((0..n).map(|_| rng.next_u64() as u8).collect(), format!("{} random bytes", n))
        }
    }
}

pub fn make_input(seeds: &[Seed], seed: u64, case: u64) -> (Vec<u8>, String, &'static str) {
    let mut rng = Rng::derive(seed, 9, case);
    for _ in 0..6 {
        let s = rng.pick(seeds);
        let r = match rng.below(10) {
            0..=2 => corrupt_cell(s, &mut rng).map(|x| (x, "cell")),
            3 => corrupt_stream_shape(s, &mut rng).map(|x| (x, "stream-shape")),
            4 => match rng.below(3) {
                0 => corrupt_pool(s, &mut rng).map(|x| (x, "pool")),
                1 => corrupt_pool_text(s, &mut rng).map(|x| (x, "pool-text")),
                _ => corrupt_catalog_rows(s, &mut rng).map(|x| (x, "catalog-rows")),
            },
            5 | 6 => corrupt_propset(s, &mut rng).map(|x| (x, "propset")),
            7 => corrupt_misc(s, &mut rng).map(|x| (x, "misc")),
            _ => Some((byte_level(seeds, &mut rng), "bytes")),
        };
        if let Some(((bytes, what), class)) = r {
            return (bytes, format!("{} of seed [{}]", what, s.origin), class);
        }
    }
    let (b, w) = byte_level(seeds, &mut rng);
    (b, w, "bytes")
}

// ---------------------------------------------------------------- exercise script

pub struct ExerciseStats {
    pub opened: bool,
    pub calls: u64,
}

/// Applies the exercise script; returns the first panic.
pub fn exercise(bytes: &[u8], case: u64, stats: &mut ExerciseStats) -> Result<(), (String, PanicInfo)> {
    let g = |what: &str, p: PanicInfo| (what.to_string(), p);
    let opened = guarded(|| msi::Package::open(Cursor::new(bytes.to_vec()))).map_err(|p| g("Package::open", p))?;
    stats.calls += 1;
    let mut pkg = match opened {
        Ok(p) => p,
        Err(_) => return Ok(()),
    };
    stats.opened = true;
    // a panic mid-call leaves the package in an unknown state: it is leaked, never dropped
    let r = exercise_open(&mut pkg, case, stats);
    if r.is_err() {
        std::mem::forget(pkg);
        return r;
    }
    let d = guarded(move || drop(pkg));
    d.map_err(|p| g("drop", p))
}

fn exercise_open(pkg: &mut msi::Package<Cursor<Vec<u8>>>, case: u64, stats: &mut ExerciseStats) -> Result<(), (String, PanicInfo)> {
    let g = |what: String, p: PanicInfo| (what, p);
    let tables: Vec<String> = guarded(|| pkg.tables().map(|t| t.name().to_string()).collect()).map_err(|p| g("tables()".into(), p))?;
    // describe
    guarded(|| {
        for t in pkg.tables() {
            for c in t.columns() {
                let _ = (c.name(), c.coltype(), c.is_nullable(), c.is_primary_key(), c.is_localizable(), c.value_range(), c.category(), c.enum_values().map(|e| e.len()));
            }
            let _ = t.primary_key_indices();
        }
        let _ = (pkg.package_type(), pkg.database_codepage(), pkg.has_digital_signature());
    })
    .map_err(|p| g("describing tables".into(), p))?;
    stats.calls += 1;
    // select every table and iterate every row and cell
    for t in &tables {
        guarded(|| {
            if let Ok(rows) = pkg.select_rows(msi::Select::table(t.clone())) {
                let _ = rows.len();
                for r in rows {
                    for i in 0..r.len() {
                        let _ = format!("{}", r[i]);
                    }
                }
            }
        })
        .map_err(|p| g(format!("select_rows({:?}) + iteration", t), p))?;
        stats.calls += 1;
    }
    // joins of table pairs
    for (i, a) in tables.iter().enumerate().take(4) {
        for b in tables.iter().skip(i).take(2) {
            guarded(|| {
                let acol = pkg.get_table(a).and_then(|t| t.columns().first().map(|c| format!("{}.{}", a, c.name()))).unwrap_or_default();
                let bcol = pkg.get_table(b).and_then(|t| t.columns().first().map(|c| format!("{}.{}", b, c.name()))).unwrap_or_default();
                let q = msi::Select::table(a.clone()).inner_join(msi::Select::table(b.clone()), msi::Expr::col(acol.clone()).eq(msi::Expr::col(bcol.clone())));
                if let Ok(rows) = pkg.select_rows(q) {
                    let _ = rows.take(200).count();
                }
                let q = msi::Select::table(a.clone()).left_join(msi::Select::table(b.clone()), msi::Expr::col(acol).lt(msi::Expr::col(bcol)));
                if let Ok(rows) = pkg.select_rows(q) {
                    let _ = rows.take(200).count();
                }
            })
            .map_err(|p| g(format!("join of {:?} and {:?}", a, b), p))?;
            stats.calls += 1;
        }
    }
    // summary getters
    guarded(|| {
        let s = pkg.summary_info();
        let _ = (s.title(), s.subject(), s.author(), s.comments(), s.creating_application(), s.uuid(), s.word_count(), s.creation_time(), s.arch(), s.languages().len(), s.codepage());
    })
    .map_err(|p| g("summary getters".into(), p))?;
    stats.calls += 1;
    // list and read every stream
    guarded(|| {
        let names: Vec<String> = pkg.streams().collect();
        for n in names.iter().take(20) {
            let _ = pkg.has_stream(n);
            if let Ok(mut r) = pkg.read_stream(n) {
                let mut d = Vec::new();
                let _ = r.by_ref().take(1 << 20).read_to_end(&mut d);
            }
        }
    })
    .map_err(|p| g("listing / reading streams".into(), p))?;
    stats.calls += 1;
    // ---- mutating calls, then flush
    for t in &tables {
        let cols: Vec<(String, bool, bool, bool)> = pkg
            .get_table(t)
            .map(|tt| tt.columns().iter().map(|c| (c.name().to_string(), matches!(c.coltype(), msi::ColumnType::Str(_)), c.is_primary_key(), c.is_nullable())).collect())
            .unwrap_or_default();
        if cols.is_empty() {
            continue;
        }
        let c0 = cols[0].0.clone();
        // update a non-key column (or the key) of all rows, then of some rows
        let target = cols.iter().find(|c| !c.2).unwrap_or(&cols[0]).clone();
        let newv = if target.1 { msi::Value::from(format!("upd{}", case)) } else { msi::Value::Int(7) };
        guarded(|| {
            let _ = pkg.update_rows(msi::Update::table(t.clone()).set(target.0.clone(), newv.clone()).with(msi::Expr::col(c0.clone()).ne(msi::Expr::null())));
        })
        .map_err(|p| g(format!("update_rows on {:?}", t), p))?;
        stats.calls += 1;
        // the same for the LAST column
        let last = cols[cols.len() - 1].clone();
        let lastv = if last.1 { msi::Value::from(format!("last{}", case)) } else { msi::Value::Int(3) };
        guarded(|| {
            let _ = pkg.update_rows(msi::Update::table(t.clone()).set(last.0.clone(), lastv.clone()).set(target.0.clone(), newv.clone()).set(last.0.clone(), lastv.clone()));
        })
        .map_err(|p| g(format!("update_rows (last column) on {:?}", t), p))?;
        stats.calls += 1;
        // insert a row
        let row: Vec<msi::Value> = cols.iter().enumerate().map(|(i, c)| if c.1 { msi::Value::from(format!("ins{}_{}", case, i)) } else { msi::Value::Int(12000 + i as i32) }).collect();
        guarded(|| {
            let _ = pkg.insert_rows(msi::Insert::into(t.clone()).row(row.clone()));
        })
        .map_err(|p| g(format!("insert_rows into {:?}", t), p))?;
        stats.calls += 1;
        // delete some rows, then all rows of every second table
        guarded(|| {
            let _ = pkg.delete_rows(msi::Delete::from(t.clone()).with(msi::Expr::col(c0.clone()).eq(msi::Expr::integer(12000))));
            if case % 2 == 0 && !t.starts_with('_') {
                let _ = pkg.delete_rows(msi::Delete::from(t.clone()));
            }
        })
        .map_err(|p| g(format!("delete_rows from {:?}", t), p))?;
        stats.calls += 1;
    }
    guarded(|| {
        let _ = pkg.create_table(
            format!("New{}", case % 1000),
            vec![msi::Column::build("Id").primary_key().int16(), msi::Column::build("Name").nullable().string(32), msi::Column::build("G").nullable().category(msi::Category::Guid).string(38)],
        );
        let _ = pkg.insert_rows(msi::Insert::into(format!("New{}", case % 1000)).row(vec![msi::Value::Int(1), msi::Value::from("name"), msi::Value::Null]));
    })
    .map_err(|p| g("create_table + insert".into(), p))?;
    stats.calls += 1;
    if let Some(t) = tables.iter().find(|t| !t.starts_with('_')) {
        guarded(|| {
            let _ = pkg.drop_table(t);
        })
        .map_err(|p| g(format!("drop_table({:?})", t), p))?;
        stats.calls += 1;
    }
    guarded(|| {
        if let Ok(mut w) = pkg.write_stream("Fuzz.stream") {
            let _ = w.write_all(&[9u8; 5000]);
            let _ = w.flush();
        }
        let _ = pkg.remove_stream("Fuzz.stream");
        let _ = pkg.remove_digital_signature();
    })
    .map_err(|p| g("stream calls".into(), p))?;
    stats.calls += 1;
    guarded(|| {
        let s = pkg.summary_info_mut();
        s.set_subject("fuzzed");
        s.set_languages(&[msi::Language::from_code(1033)]);
        s.set_codepage(msi::CodePage::Windows1252);
        pkg.set_database_codepage(msi::CodePage::Utf8);
    })
    .map_err(|p| g("summary setters".into(), p))?;
    stats.calls += 1;
    guarded(|| {
        let _ = pkg.flush();
    })
    .map_err(|p| g("flush".into(), p))?;
    stats.calls += 1;
    Ok(())
}

// ---------------------------------------------------------------- worker / supervisor

fn case_violation(rep: &mut Report, seed: u64, tier: &str, case: u64, what: &str, class: &str, call: &str, p: &PanicInfo) {
    if p.in_harness() {
        rep.inconclusive.push(format!("harness panic in case {}: {} at {}", case, p.message, p.location));
        return;
    }
    rep.violation(
        format!("C09/panic/{}", p.signature()),
        format!("input [{}]: {} panicked: {} at {}", what, call, p.message, p.location),
        json!({"kind": "case", "seed": seed, "tier": tier, "case": case, "mutation": what, "class": class, "call": call}),
    );
}

/// Worker: runs cases `from, from+stride, ...` below `upto`; progress file
/// gets the case number before each case; report written to `out`.
pub fn worker_main(args: &[String]) -> i32 {
    let get = |k: &str| -> Option<String> { args.iter().position(|a| a == k).and_then(|i| args.get(i + 1).cloned()) };
    let seed: u64 = get("--seed").and_then(|v| v.parse().ok()).unwrap_or(1);
    let from: u64 = get("--from").and_then(|v| v.parse().ok()).unwrap_or(0);
    let stride: u64 = get("--stride").and_then(|v| v.parse().ok()).unwrap_or(1);
    let upto: u64 = get("--upto").and_then(|v| v.parse().ok()).unwrap_or(0);
    let tier = get("--tier").unwrap_or_else(|| "quick".into());
    let progress = get("--progress").unwrap_or_else(|| "/dev/null".into());
    let out = get("--out").unwrap_or_else(|| "/dev/null".into());
    let only: Option<u64> = get("--only").and_then(|v| v.parse().ok());
    // a runaway allocation kills one worker, not the sandbox
    unsafe {
        let lim = libc::rlimit { rlim_cur: 16 << 30, rlim_max: 16 << 30 };
        libc::setrlimit(libc::RLIMIT_AS, &lim);
    }
    crate::panicmon::install();
    let seeds = build_seeds(seed);
    let mut rep = Report::new();
    if seeds.is_empty() {
        rep.inconclusive.push("no seed packages could be built".into());
    }
    let write_out = |rep: &Report, last: u64| {
        let mut doc = rep.to_json();
        doc["last_case"] = json!(last);
        doc["fingerprints"] = json!(rep.fingerprints.iter().collect::<Vec<_>>());
        let tmp = format!("{}.tmp", out);
        if std::fs::write(&tmp, serde_json::to_string(&doc).unwrap()).is_ok() {
            let _ = std::fs::rename(&tmp, &out);
        }
    };
    let mut case = only.unwrap_or(from);
    let mut n_done = 0u64;
    while !seeds.is_empty() && (only.is_some() || case < upto) {
        let _ = std::fs::write(&progress, format!("{}", case));
        let (bytes, what, class) = make_input(&seeds, seed, case);
        let mut stats = ExerciseStats { opened: false, calls: 0 };
        crate::allocmon::reset();
        let r = exercise(&bytes, case, &mut stats);
        // a single allocation request of >= 1 GiB for an input of a few hundred KiB: driven by a length field
        let huge = crate::allocmon::largest();
        if huge > 0 && bytes.len() < (64 << 20) {
            rep.count("huge_allocation_requests");
            rep.violation(
                format!("C09/huge-allocation/{}", if huge >= 0xFFFF_0000 { "~4GiB" } else if huge >= (2 << 30) { ">=2GiB" } else { ">=1GiB" }),
                format!(
                    "a single allocation of {} bytes was requested while handling an input of {} bytes ({}); where that much memory is not available the process aborts, on 32-bit targets it is a capacity-overflow panic",
                    huge,
                    bytes.len(),
                    what
                ),
                json!({"kind": "case", "seed": seed, "tier": tier, "case": case}),
            );
        }
        rep.add("api_calls", stats.calls);
        rep.count(&format!("inputs_{}", class));
        if stats.opened {
            rep.count("inputs_that_opened");
        }
        // distinct & non-trivial: the input was accepted by the container layer at least
        rep.case(Some(fnv(format!("{}:{}:{}:{}", class, what.split(" of seed").next().unwrap_or("").chars().filter(|c| !c.is_ascii_digit()).collect::<String>(), stats.opened, stats.calls.min(40)).as_bytes())));
        if let Err((call, p)) = r {
            case_violation(&mut rep, seed, &tier, case, &what, class, &call, &p);
        }
        n_done += 1;
        if n_done % 500 == 0 {
            write_out(&rep, case);
        }
        if only.is_some() {
            break;
        }
        case += stride;
    }
    write_out(&rep, case);
    let _ = std::fs::write(&progress, "done");
    0
}

fn merge_doc(rep: &mut Report, doc: &serde_json::Value) {
    rep.evaluations += doc["evaluations"].as_u64().unwrap_or(0);
    if let Some(fp) = doc["fingerprints"].as_array() {
        for f in fp {
            if let Some(x) = f.as_u64() {
                rep.fingerprints.insert(x);
            }
        }
    }
    if let Some(c) = doc["counters"].as_object() {
        for (k, v) in c {
            rep.add(k, v.as_u64().unwrap_or(0));
        }
    }
    if let Some(vs) = doc["violations"].as_array() {
        for v in vs {
            let sig = v["signature"].as_str().unwrap_or("").to_string();
            for _ in 0..v["count"].as_u64().unwrap_or(1).min(1) {
                rep.violation(sig.clone(), v["what"].as_str().unwrap_or("").to_string(), v["witness"].clone());
            }
        }
    }
    if let Some(inc) = doc["inconclusive"].as_array() {
        for i in inc {
            rep.inconclusive.push(i.as_str().unwrap_or("").to_string());
        }
    }
}

/// Supervisor: spawns worker subprocesses, watches their progress files,
/// attributes deaths and hangs to the exact case.
pub fn run(ctx: &Ctx) -> Report {
    let mut rep = Report::new();
    let exe = match std::env::current_exe() {
        Ok(e) => e,
        Err(e) => {
            rep.inconclusive.push(format!("cannot find own executable: {}", e));
            return rep;
        }
    };
    let dir = std::env::temp_dir().join(format!("mv-c09-{}-{}", std::process::id(), ctx.seed));
    let _ = std::fs::remove_dir_all(&dir);
    if std::fs::create_dir_all(&dir).is_err() {
        rep.inconclusive.push("cannot create scratch directory".into());
        return rep;
    }
    let tier = if ctx.quick() { "quick" } else { "thorough" };
    if let Some(w) = &ctx.replay {
        let case = w["case"].as_u64().unwrap_or(0);
        let seed = w["seed"].as_u64().unwrap_or(ctx.seed);
        let out = dir.join("only.json");
        let st = std::process::Command::new(&exe)
            .args(["C09W", "--seed", &seed.to_string(), "--only", &case.to_string(), "--tier", tier, "--out", out.to_str().unwrap(), "--progress", dir.join("only.progress").to_str().unwrap()])
            .status();
        match st {
            Ok(s) if s.success() => {
                if let Ok(t) = std::fs::read_to_string(&out) {
                    if let Ok(doc) = serde_json::from_str::<serde_json::Value>(&t) {
                        merge_doc(&mut rep, &doc);
                    }
                }
            }
            Ok(s) => rep.violation(format!("C09/worker-died/{:?}", s.code()), format!("worker died replaying case {}: {:?}", case, s), w.clone()),
            Err(e) => rep.inconclusive.push(format!("cannot spawn worker: {}", e)),
        }
        let _ = std::fs::remove_dir_all(&dir);
        return rep;
    }
    let total = ctx.budget(40_000, 2_000_000);
    let n = ctx.threads.max(1) as u64;
    struct W {
        child: std::process::Child,
        shard: u64,
        progress: std::path::PathBuf,
        out: std::path::PathBuf,
        last_progress: String,
        last_change: std::time::Instant,
        gen: u32,
    }
    let spawn = |shard: u64, from: u64, gen: u32| -> std::io::Result<W> {
        let progress = dir.join(format!("w{}.progress", shard));
        let out = dir.join(format!("w{}.g{}.json", shard, gen));
        let child = std::process::Command::new(&exe)
            .args([
                "C09W", "--seed", &ctx.seed.to_string(), "--from", &from.to_string(), "--stride", &n.to_string(), "--upto", &total.to_string(), "--tier", tier, "--progress",
                progress.to_str().unwrap(), "--out", out.to_str().unwrap(),
            ])
            .stdout(std::process::Stdio::null())
            .spawn()?;
        Ok(W { child, shard, progress, out, last_progress: String::new(), last_change: std::time::Instant::now(), gen })
    };
    let mut workers: Vec<W> = Vec::new();
    for shard in 0..n {
        match spawn(shard, shard, 0) {
            Ok(w) => workers.push(w),
            Err(e) => rep.inconclusive.push(format!("cannot spawn worker {}: {}", shard, e)),
        }
    }
    let mut outs: Vec<std::path::PathBuf> = Vec::new();
    let per_case_budget = std::time::Duration::from_secs(60);
    while !workers.is_empty() {
        std::thread::sleep(std::time::Duration::from_millis(200));
        let mut i = 0;
        while i < workers.len() {
            let w = &mut workers[i];
            let prog = std::fs::read_to_string(&w.progress).unwrap_or_default();
            if prog != w.last_progress {
                w.last_progress = prog.clone();
                w.last_change = std::time::Instant::now();
            }
            match w.child.try_wait() {
                Ok(Some(status)) => {
                    outs.push(w.out.clone());
                    let shard = w.shard;
                    let gen = w.gen;
                    if !status.success() || prog != "done" {
                        // died inside a case: attribute it and resume after it
                        let case: Option<u64> = prog.trim().parse().ok();
                        rep.count("worker_deaths");
                        if let Some(c) = case {
                            rep.violation(
                                format!("C09/process-died/{}", status.code().map(|c| c.to_string()).unwrap_or_else(|| "signal".into())),
                                format!("worker process died ({:?}) inside case {} (abort / stack overflow / allocation failure escape catch_unwind)", status, c),
                                json!({"kind": "case", "seed": ctx.seed, "tier": tier, "case": c}),
                            );
                            workers.remove(i);
                            if gen < 50 {
                                match spawn(shard, c + n, gen + 1) {
                                    Ok(nw) => workers.push(nw),
                                    Err(e) => rep.inconclusive.push(format!("cannot respawn worker: {}", e)),
                                }
                            }
                            continue;
                        }
                        rep.inconclusive.push(format!("worker {} exited with {:?} without progress information", shard, status));
                    }
                    workers.remove(i);
                    continue;
                }
                Ok(None) => {
                    if w.last_change.elapsed() > per_case_budget {
                        // possible hang: kill, re-run that single case alone with a 10x budget
                        let case: Option<u64> = w.last_progress.trim().parse().ok();
                        let _ = w.child.kill();
                        let _ = w.child.wait();
                        outs.push(w.out.clone());
                        let shard = w.shard;
                        let gen = w.gen;
                        workers.remove(i);
                        if let Some(c) = case {
                            let alone_out = dir.join(format!("alone{}.json", c));
                            let child = std::process::Command::new(&exe)
                                .args(["C09W", "--seed", &ctx.seed.to_string(), "--only", &c.to_string(), "--tier", tier, "--out", alone_out.to_str().unwrap(), "--progress", dir.join(format!("alone{}.progress", c)).to_str().unwrap()])
                                .spawn();
                            let mut hung = true;
                            if let Ok(mut ch) = child {
                                let t0 = std::time::Instant::now();
                                while t0.elapsed() < std::time::Duration::from_secs(600) {
                                    if let Ok(Some(_)) = ch.try_wait() {
                                        hung = false;
                                        break;
                                    }
                                    std::thread::sleep(std::time::Duration::from_millis(200));
                                }
                                if hung {
                                    let _ = ch.kill();
                                    let _ = ch.wait();
                                }
                            }
                            if hung {
                                rep.violation(
                                    "C09/hang".to_string(),
                                    format!("case {} did not finish within 60 s in the batch and within 600 s alone", c),
                                    json!({"kind": "case", "seed": ctx.seed, "tier": tier, "case": c}),
                                );
                            } else {
                                rep.count("watchdog_expiries_resolved_in_isolation");
                                outs.push(alone_out);
                            }
                            if gen < 50 {
                                if let Ok(nw) = spawn(shard, c + n, gen + 1) {
                                    workers.push(nw);
                                }
                            }
                        } else {
                            rep.inconclusive.push("watchdog fired on a worker without progress information".into());
                        }
                        continue;
                    }
                }
                Err(e) => {
                    rep.inconclusive.push(format!("waiting for a worker failed: {}", e));
                    workers.remove(i);
                    continue;
                }
            }
            i += 1;
        }
    }
    for o in outs {
        if let Ok(t) = std::fs::read_to_string(&o) {
            if let Ok(doc) = serde_json::from_str::<serde_json::Value>(&t) {
                merge_doc(&mut rep, &doc);
            }
        }
    }
    let _ = std::fs::remove_dir_all(&dir);
    let seeds = build_seeds(ctx.seed);
    rep.add("seed_packages", seeds.len() as u64);
    for c in [0u64, 1, 2, 3] {
        if !seeds.is_empty() {
            let (b, what, class) = make_input(&seeds, ctx.seed, c);
            rep.sample(json!({"case": c, "class": class, "mutation": what, "input_bytes": b.len()}));
        }
    }
    rep
}

/// Writes `count` corrupted inputs (and the seeds) as files, for the FFI lanes.
pub fn emit_corpus(dir: &str, seed: u64, count: u64) -> std::io::Result<u64> {
    std::fs::create_dir_all(dir)?;
    let seeds = build_seeds(seed);
    let mut n = 0;
    for (i, s) in seeds.iter().enumerate() {
        std::fs::write(format!("{}/seed{:03}.msi", dir, i), &s.bytes)?;
        n += 1;
    }
    for case in 0..count {
        let (b, _, _) = make_input(&seeds, seed, case);
        std::fs::write(format!("{}/case{:06}.msi", dir, case), &b)?;
        n += 1;
    }
    Ok(n)
}
