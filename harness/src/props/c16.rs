//! C16 — opening and reading a package never modifies it.
//!
//! Counting medium: a session made only of `open` and read calls, closed in
//! any of the three ways, must issue no write and leave the bytes identical.

use crate::absgen::{encode_absdb, gen_absdb, AbsCfg};
use crate::engine::{CloseMode, Monitors, Session, CLOSE_MODES};
use crate::exprmodel::{Bin, MExpr};
use crate::gen::{Gen, GenCfg};
use crate::medium::Medium;
use crate::panicmon::guarded;
use crate::prng::{fnv, Rng};
use crate::report::{parallel, Report};
use crate::types::V;
use crate::Ctx;
use serde_json::json;
use std::io::Read;

/// Library-written packages with features that well-meant "housekeeping" at save time might act on:
/// data streams whose row is gone, foreign keys to tables that do not exist, cleared or empty summary
/// properties, differing code pages, unused string-pool entries, empty tables, tables and streams sharing names.
fn make_featured(rng: &mut Rng) -> Option<Vec<u8>> {
    use std::io::Write;
    let med = Medium::new();
    let mut p = msi::Package::create(*rng.pick(&[msi::PackageType::Installer, msi::PackageType::Patch, msi::PackageType::Transform]), med.handle()).ok()?;
    let f = rng.next_u64();
    let bit = |i: u32| f >> i & 1 == 1;
    if bit(0) {
        p.create_table("Binary", vec![msi::Column::build("Name").primary_key().id_string(72), msi::Column::build("Data").nullable().binary()]).ok()?;
        p.insert_rows(msi::Insert::into("Binary").row(vec![msi::Value::from("Kept"), msi::Value::from("Binary.Kept")])).ok()?;
        for n in ["Binary.Kept", "Binary.Dialog", "Binary.", "Icon.Gone", "Binary"] {
            let mut w = p.write_stream(n).ok()?;
            w.write_all(n.as_bytes()).ok()?;
            w.flush().ok()?;
        }
    }
    if bit(1) {
        p.create_table(
            "Child",
            vec![msi::Column::build("K").primary_key().int16(), msi::Column::build("Parent_").nullable().foreign_key("NoSuchParent", 1).id_string(72), msi::Column::build("Other_").nullable().foreign_key("Binary", 1).int16()],
        )
        .ok()?;
    }
    if bit(2) {
        p.summary_info_mut().clear_title();
        p.summary_info_mut().clear_author();
    }
    if bit(3) {
        p.summary_info_mut().set_title("");
        p.summary_info_mut().set_comments("");
    }
    if bit(4) {
        p.set_database_codepage(msi::CodePage::Windows1252);
    }
    if bit(5) {
        p.summary_info_mut().set_codepage(msi::CodePage::Windows1251);
        p.summary_info_mut().set_subject("тема");
    }
    if bit(6) {
        // strings interned last and released again: unused entries at the end of the pool
        p.create_table("Scratch", vec![msi::Column::build("K").primary_key().string(32)]).ok()?;
        p.insert_rows(msi::Insert::into("Scratch").row(vec![msi::Value::from("t0x1 temporary")]).row(vec![msi::Value::from("t0x2 temporary")])).ok()?;
        p.delete_rows(msi::Delete::from("Scratch")).ok()?;
    }
    if bit(7) {
        p.create_table("Empty", vec![msi::Column::build("K").primary_key().int32(), msi::Column::build("V").nullable().text_string(0)]).ok()?;
    }
    if bit(8) {
        p.summary_info_mut().clear_creation_time();
        p.summary_info_mut().clear_uuid();
        p.summary_info_mut().clear_creating_application();
    }
    if bit(9) {
        p.summary_info_mut().set_languages(&[]);
        p.summary_info_mut().clear_arch();
    }
    if bit(10) {
        p.create_table("Dropped", vec![msi::Column::build("K").primary_key().int16()]).ok()?;
        p.drop_table("Dropped").ok()?;
    }
    p.into_inner().ok()?;
    Some(med.live())
}

/// Input packages: library-written (random history) or independently encoded.
fn make_input(seed: u64, case: u64) -> Option<(Vec<u8>, &'static str)> {
    let mut rng = Rng::derive(seed, 16, case);
    if case % 5 == 4 {
        return make_featured(&mut rng).map(|b| (b, "library-written-featured"));
    }
    if case % 2 == 0 {
        let mut g = Gen::new(Rng::derive(seed, 161, case), GenCfg { invalid_pct: 0, big_batch_one_in: 25, ..Default::default() }, case);
        let mut s = Session::create(["Installer", "Patch", "Transform"][(case % 3) as usize]).ok()?;
        let mut scratch = Report::new();
        for _ in 0..(2 + rng.usize(10)) {
            let op = g.op(&s.model);
            if s.apply(&op, &Monitors::default(), &mut scratch).is_err() {
                s.leak();
                return None;
            }
        }
        let pkg = s.pkg.take()?;
        pkg.into_inner().ok()?;
        Some((s.med.live(), "library-written"))
    } else {
        let db = gen_absdb(&mut rng, case, &AbsCfg { max_tables: 4, max_cols: 6, max_rows: 12 }, None);
        encode_absdb(&db).ok().map(|b| (b, "independently-encoded"))
    }
}

fn read_call(pkg: &mut msi::Package<crate::medium::Handle>, rng: &mut Rng, log: &mut Vec<String>) {
    let tables: Vec<String> = pkg.tables().map(|t| t.name().to_string()).collect();
    let streams: Vec<String> = pkg.streams().collect();
    let pick_table = |rng: &mut Rng| if tables.is_empty() || rng.chance(1, 10) { "NoSuchTable".to_string() } else { rng.pick(&tables).clone() };
    match rng.below(12) {
        0 => {
            log.push("tables+columns".into());
            for t in pkg.tables() {
                for c in t.columns() {
                    let _ = (c.name(), c.coltype(), c.is_nullable(), c.is_primary_key(), c.is_localizable(), c.value_range(), c.category(), c.enum_values());
                }
                let _ = t.primary_key_indices();
            }
        }
        1 | 2 => {
            let t = pick_table(rng);
            log.push(format!("select {}", t));
            if let Ok(rows) = pkg.select_rows(msi::Select::table(t)) {
                for r in rows {
                    for i in 0..r.len() {
                        let _ = &r[i];
                    }
                }
            }
        }
        3 => {
            let t = pick_table(rng);
            log.push(format!("select {} with condition / projection", t));
            let col = pkg.get_table(&t).and_then(|tt| tt.columns().first().map(|c| c.name().to_string())).unwrap_or_else(|| "X".into());
            let e = MExpr::Bin(Bin::Ne, Box::new(MExpr::Col(col.clone())), Box::new(MExpr::Lit(V::Int(3))));
            let _ = pkg.select_rows(msi::Select::table(t.clone()).columns(&[col]).with(crate::exprmodel::lower(&e))).map(|r| r.count());
            let _ = pkg.select_rows(msi::Select::table(t).columns(&["NoSuchColumn"])).map(|r| r.count());
        }
        4 => {
            let (a, b) = (pick_table(rng), pick_table(rng));
            log.push(format!("join {} x {}", a, b));
            let q = msi::Select::table(a).inner_join(msi::Select::table(b), msi::Expr::boolean(true));
            let _ = pkg.select_rows(q).map(|r| r.take(50).count());
            let (a, b) = (pick_table(rng), pick_table(rng));
            let q = msi::Select::table(a).left_join(msi::Select::table(b), msi::Expr::col("Nope").eq(msi::Expr::integer(1)));
            let _ = pkg.select_rows(q).map(|r| r.take(50).count());
        }
        5 => {
            log.push("summary getters".into());
            let s = pkg.summary_info();
            let _ = (s.title(), s.subject(), s.author(), s.comments(), s.creating_application(), s.uuid(), s.word_count(), s.creation_time(), s.arch(), s.languages(), s.codepage());
        }
        6 => {
            log.push("streams".into());
            let _ = pkg.streams().count();
        }
        7 | 8 => {
            let n = if streams.is_empty() || rng.chance(1, 4) { "No.such.stream".to_string() } else { rng.pick(&streams).clone() };
            log.push(format!("read_stream {:?}", n));
            let _ = pkg.has_stream(&n);
            if let Ok(mut r) = pkg.read_stream(&n) {
                let mut d = Vec::new();
                let _ = r.read_to_end(&mut d);
            }
        }
        9 => {
            log.push("has_digital_signature / package_type / database_codepage".into());
            let _ = (pkg.has_digital_signature(), pkg.package_type(), pkg.database_codepage());
        }
        10 => {
            let t = pick_table(rng);
            log.push(format!("has_table/get_table {}", t));
            let _ = pkg.has_table(&t);
            let _ = pkg.get_table(&t).map(|x| x.columns().len());
        }
        _ => {
            log.push("select _Validation / _Columns".into());
            let _ = pkg.select_rows(msi::Select::table("_Validation")).map(|r| r.count());
            let _ = pkg.select_rows(msi::Select::table("_Columns")).map(|r| r.count());
        }
    }
}

/// Adds the two digital-signature streams with the container library directly.
fn sign(bytes: &[u8]) -> Option<Vec<u8>> {
    use std::io::Write;
    let mut comp = cfb::CompoundFile::open(std::io::Cursor::new(bytes.to_vec())).ok()?;
    comp.create_stream("/\u{5}DigitalSignature").ok()?.write_all(b"signature bytes").ok()?;
    comp.create_stream("/\u{5}MsiDigitalSignatureEx").ok()?.write_all(b"signature ex bytes").ok()?;
    comp.flush().ok()?;
    Some(comp.into_inner().into_inner())
}

fn run_case(rep: &mut Report, seed: u64, case: u64) {
    let (mut bytes, origin) = match make_input(seed, case) {
        Some(x) => x,
        None => {
            rep.count("inputs_skipped");
            return;
        }
    };
    if case % 4 == 3 {
        if let Some(s) = sign(&bytes) {
            bytes = s;
            rep.count("inputs_signed");
        }
    }
    rep.count(&format!("inputs_{}", origin));
    for (mi, mode) in CLOSE_MODES.iter().enumerate() {
        let med = Medium::from_bytes(bytes.clone());
        let mut rng = Rng::derive(seed, 1600 + mi as u64, case);
        let mut log: Vec<String> = Vec::new();
        let n_calls = 1 + rng.usize(40);
        let r = guarded(|| -> Result<(), String> {
            let mut pkg = msi::Package::open(med.handle()).map_err(|e| format!("open failed: {}", e))?;
            for _ in 0..n_calls {
                read_call(&mut pkg, &mut rng, &mut log);
            }
            // one session in five: the medium refuses `flush` (once, or from now on); the session is still read-only,
            // whatever is called afterwards
            if case % 5 == 1 {
                med.arm(crate::medium::Fault { kind: crate::medium::FaultKind::Flush, at: 0, persistent: case % 2 == 0, as_eof: false });
                let _ = pkg.flush();
                let _ = pkg.flush();
            }
            match mode {
                CloseMode::Flush => {
                    let r = pkg.flush();
                    drop(pkg);
                    if case % 5 != 1 {
                        r.map_err(|e| format!("flush failed: {}", e))?;
                    }
                }
                CloseMode::IntoInner => {
                    pkg.into_inner().map_err(|e| format!("into_inner failed: {}", e))?;
                }
                CloseMode::Drop => drop(pkg),
            }
            Ok(())
        });
        rep.count(&format!("sessions_{:?}", mode));
        rep.add("read_calls", n_calls as u64);
        let c = med.counts();
        rep.add("medium_reads_observed", c.reads);
        let w = json!({"kind": "case", "seed": seed, "case": case, "mode": format!("{:?}", mode), "origin": origin, "calls": log.iter().take(40).collect::<Vec<_>>()});
        match r {
            Err(p) => {
                if !p.in_harness() {
                    // panics on read paths are C09's subject; here they only make the session undecidable
                    rep.count("sessions_panicked_skipped");
                }
                continue;
            }
            Ok(Err(e)) => {
                rep.count("sessions_with_error");
                let _ = e;
            }
            Ok(Ok(())) => {}
        }
        rep.case(Some(fnv(format!("{}:{:?}:{}", origin, mode, log.iter().map(|l| l.split(' ').next().unwrap_or("")).collect::<Vec<_>>().join(",")).as_bytes())));
        if c.writes != 0 {
            rep.violation(
                format!("C16/writes/{:?}", mode),
                format!("a read-only session ({} read calls, closed by {:?}) issued {} write calls ({} bytes) to the medium", n_calls, mode, c.writes, c.bytes_written),
                w.clone(),
            );
        }
        if !med.live_eq(&bytes) {
            rep.violation(format!("C16/bytes-changed/{:?}", mode), format!("a read-only session closed by {:?} left different bytes on the medium", mode), w);
        }
    }
}

pub fn run(ctx: &Ctx) -> Report {
    if let Some(w) = &ctx.replay {
        let mut rep = Report::new();
        run_case(&mut rep, w["seed"].as_u64().unwrap_or(ctx.seed), w["case"].as_u64().unwrap_or(0));
        return rep;
    }
    let n = ctx.budget(10_000, 300_000);
    let seed = ctx.seed;
    let mut rep = parallel(ctx.threads, |shard, nsh| {
        let mut rep = Report::new();
        for case in (shard as u64..n).step_by(nsh) {
            run_case(&mut rep, seed, case);
        }
        rep
    });
    rep.sample(json!({"input": "library-written package after a random history", "session": ["open", "select T", "join A x B (failing)", "summary getters", "read_stream"], "close": ["flush", "into_inner", "drop"], "oracle": "write calls on the medium == 0 and bytes identical"}));
    rep.sample(json!({"input": "independently encoded database (3-byte references, holes, unsorted rows, no _Validation ...)", "oracle": "same"}));
    rep
}
