//! C15 — a successful flush means the data reached the medium, even when
//! writes fail.  Fault enumeration: every write / read / seek index of each
//! script, transient and persistent.

use crate::engine::{reopen_observe, Monitors, Session};
use crate::exprmodel::{Bin, MExpr};
use crate::medium::{Fault, FaultKind, Medium};
use crate::model::{exec_op, Op, SumOp};
use crate::observe::Obs;
use crate::panicmon::guarded;
use crate::prng::fnv;
use crate::report::{parallel, Report};
use crate::types::{ColDef, CT, V};
use crate::Ctx;
use serde_json::json;

#[derive(Clone)]
pub struct Script {
    pub name: &'static str,
    /// performed fault-free to build the base image (None = start from Package::create under faults)
    pub setup: Option<Vec<Op>>,
    pub ops: Vec<Op>,
    /// true: finish with into_inner(), false: with flush()
    pub into_inner: bool,
    /// true: the fault plan is armed before `Package::open` (faults while the file is being read in)
    pub arm_before_open: bool,
    /// true: after the operations everything is read back through the API while the fault plan is still armed;
    /// a read that returns Ok must return what is in the file
    pub read_back_armed: bool,
    /// calls made directly on the package after the operations (sequences the operation model does not express)
    pub extra: Option<fn(&mut msi::Package<crate::medium::Handle>) -> std::io::Result<()>>,
}

fn kv() -> Vec<ColDef> {
    vec![ColDef::new("K", CT::Int16).key(), ColDef::new("V", CT::Str(0)).nullable()]
}

fn keq(k: i32) -> Option<MExpr> {
    Some(MExpr::Bin(Bin::Eq, Box::new(MExpr::Col("K".into())), Box::new(MExpr::Lit(V::Int(k)))))
}

pub fn scripts() -> Vec<Script> {
    let create = |n: &str| Op::CreateTable { name: n.into(), cols: kv() };
    let ins = |n: &str, rows: Vec<Vec<V>>| Op::Insert { table: n.into(), rows };
    let rows3 = vec![vec![V::Int(1), V::s("t0x1 one")], vec![V::Int(2), V::s("t0x2 two")], vec![V::Int(3), V::Null]];
    let base = vec![create("T"), ins("T", rows3.clone())];
    let many: Vec<Vec<V>> = (0..600).map(|i| vec![V::Int(i + 10), V::Str(format!("t0x{} row {}", i + 10, "r".repeat((i % 40) as usize)))]).collect();
    vec![
        Script { name: "create+insert", setup: Some(vec![]), ops: vec![create("T"), ins("T", rows3.clone())], into_inner: false, arm_before_open: false, read_back_armed: false, extra: None },
        Script {
            name: "update+delete",
            setup: Some(base.clone()),
            ops: vec![Op::Update { table: "T".into(), sets: vec![("V".into(), V::s("t0x9 updated"))], cond: keq(2) }, Op::Delete { table: "T".into(), cond: keq(1) }],
            into_inner: true,
            arm_before_open: false,
            read_back_armed: false,
            extra: None,
        },
        Script { name: "drop-table", setup: Some(base.clone()), ops: vec![Op::DropTable { name: "T".into() }], into_inner: false, arm_before_open: false, read_back_armed: false, extra: None },
        Script { name: "70KB-stream", setup: Some(base.clone()), ops: vec![Op::WriteStream { name: "Big.bin".into(), data: (0..70_000u32).map(|i| (i % 251) as u8).collect() }], into_inner: true, arm_before_open: false, read_back_armed: false, extra: None },
        Script {
            name: "summary-change",
            setup: Some(base.clone()),
            ops: vec![Op::Summary(SumOp::SetAuthor("t0x5 author é".into())), Op::Summary(SumOp::SetWordCount(2)), Op::Summary(SumOp::ClearTitle)],
            into_inner: false,
            arm_before_open: false,
            read_back_armed: false,
            extra: None,
        },
        Script { name: "codepage-change", setup: Some(base.clone()), ops: vec![Op::SetDbCodepage(1252), Op::Summary(SumOp::SetCodepage(1252))], into_inner: true, arm_before_open: false, read_back_armed: false, extra: None },
        Script { name: "long-string", setup: Some(base.clone()), ops: vec![ins("T", vec![vec![V::Int(7), V::Str(format!("t0x7{}", "L".repeat(70_000)))]])], into_inner: false, arm_before_open: false, read_back_armed: false, extra: None },
        Script {
            name: "reopen-then-modify",
            setup: Some(vec![create("T"), ins("T", rows3.clone()), create("U"), ins("U", vec![vec![V::Int(1), V::s("t0x1 one")]])]),
            ops: vec![ins("U", vec![vec![V::Int(2), V::s("t0x8 new")]]), Op::Delete { table: "T".into(), cond: None }],
            into_inner: true,
            arm_before_open: false,
            read_back_armed: false,
            extra: None,
        },
        Script { name: "batch-insert-600", setup: Some(base.clone()), ops: vec![ins("T", many)], into_inner: false, arm_before_open: false, read_back_armed: false, extra: None },
        Script {
            name: "two-tables-sharing-strings",
            setup: Some(vec![create("A"), create("B")]),
            ops: vec![ins("A", vec![vec![V::Int(1), V::s("t0x1 shared")], vec![V::Int(2), V::s("t0x2 only a")]]), ins("B", vec![vec![V::Int(1), V::s("t0x1 shared")]]), Op::Delete { table: "A".into(), cond: keq(1) }],
            into_inner: false,
            arm_before_open: false,
            read_back_armed: false,
            extra: None,
        },
        // a table whose directory entry has two children in the container's name tree is removed
        Script {
            name: "drop-middle-of-three",
            setup: Some(vec![create("Mm"), create("Aa"), create("Zz"), ins("Mm", vec![vec![V::Int(1), V::s("t0x1 m")]]), ins("Aa", vec![vec![V::Int(1), V::s("t0x2 a")]]), ins("Zz", vec![vec![V::Int(1), V::s("t0x3 z")]])]),
            ops: vec![Op::DropTable { name: "Mm".into() }],
            into_inner: false,
            arm_before_open: false,
            read_back_armed: false,
            extra: None,
        },
        Script {
            name: "remove-stream-among-many",
            setup: Some(vec![
                create("T"),
                Op::WriteStream { name: "Mm.bin".into(), data: vec![1; 100] },
                Op::WriteStream { name: "Aa.bin".into(), data: vec![2; 5000] },
                Op::WriteStream { name: "Zz.bin".into(), data: vec![3; 100] },
            ]),
            ops: vec![Op::RemoveStream { name: "Mm.bin".into() }, Op::Summary(SumOp::SetWordCount(4))],
            into_inner: true,
            arm_before_open: false,
            read_back_armed: false,
            extra: None,
        },
        // faults while the file is read in: either open fails, or what was read is what is in the file
        Script {
            name: "open-under-faults-then-edit-summary",
            setup: Some(vec![
                create("T"),
                ins("T", vec![vec![V::Int(1), V::s("t0x1 one")]]),
                Op::Summary(SumOp::SetTitle("t0x4 title".into())),
                Op::Summary(SumOp::SetAuthor("t0x5 author".into())),
                Op::Summary(SumOp::SetSubject("t0x6 subject".into())),
            ]),
            ops: vec![Op::Summary(SumOp::SetWordCount(2))],
            into_inner: false,
            arm_before_open: true,
            read_back_armed: false,
            extra: None,
        },
        Script {
            name: "open-under-faults-then-insert",
            setup: Some(vec![create("T"), ins("T", vec![vec![V::Int(1), V::s("t0x1 one")], vec![V::Int(2), V::s("t0x2 two")]]), Op::Summary(SumOp::SetTitle("t0x4 title".into()))]),
            ops: vec![ins("T", vec![vec![V::Int(3), V::s("t0x3 three")]])],
            into_inner: true,
            arm_before_open: true,
            read_back_armed: false,
            extra: None,
        },
        // a string pool longer than the container's 8 KiB read buffer: a failed refill while the pool is read in
        Script {
            name: "open-large-pool-under-faults-then-insert",
            setup: Some(vec![
                create("T"),
                create("U"),
                ins("T", (0..2600).map(|i| vec![V::Int(i + 1), V::Str(format!("t0x{} s", i + 1))]).collect()),
                ins("U", vec![vec![V::Int(1), V::s("t0x1 s")]]),
            ]),
            ops: vec![ins("U", vec![vec![V::Int(2), V::s("t0x9001 new")]])],
            into_inner: false,
            arm_before_open: true,
            read_back_armed: false,
            extra: None,
        },
        // reading under faults: tables longer than the read buffer, a 70 KB stream, the summary
        Script {
            name: "read-everything-under-faults",
            setup: Some(vec![
                create("T"),
                create("U"),
                ins("T", (0..2600).map(|i| vec![V::Int(i + 1), V::Str(format!("t0x{} s", i + 1))]).collect()),
                ins("U", vec![vec![V::Int(1), V::s("t0x1 s")]]),
                Op::WriteStream { name: "Big.bin".into(), data: (0..70_000u32).map(|i| (i % 241) as u8).collect() },
                Op::Summary(SumOp::SetTitle("t0x4 title".into())),
            ]),
            ops: vec![],
            into_inner: true,
            arm_before_open: false,
            read_back_armed: true,
            extra: None,
        },
        Script {
            name: "open-and-read-everything-under-faults",
            setup: Some(vec![
                create("T"),
                ins("T", (0..700).map(|i| vec![V::Int(i + 1), V::Str(format!("t0x{} s", i + 1))]).collect()),
                Op::WriteStream { name: "Med.bin".into(), data: (0..9_000u32).map(|i| (i % 241) as u8).collect() },
                Op::Summary(SumOp::SetTitle("t0x4 title".into())),
            ]),
            ops: vec![],
            into_inner: false,
            arm_before_open: true,
            read_back_armed: true,
            extra: None,
        },
        // a table stream longer than the container's 8 KiB buffer is rewritten
        Script {
            name: "insert-into-10KB-table",
            setup: Some(vec![create("T"), ins("T", (0..2600).map(|i| vec![V::Int(i + 1), V::Str(format!("t0x{} s", (i % 50) + 1))]).collect())]),
            ops: vec![ins("T", vec![vec![V::Int(9000), V::s("t0x9000 new")]])],
            into_inner: false,
            arm_before_open: false,
            read_back_armed: false,
            extra: None,
        },
        Script {
            name: "update-in-10KB-table",
            setup: Some(vec![create("T"), ins("T", (0..2600).map(|i| vec![V::Int(i + 1), V::Str(format!("t0x{} s", (i % 50) + 1))]).collect())]),
            ops: vec![Op::Update { table: "T".into(), sets: vec![("V".into(), V::s("t0x7 changed"))], cond: keq(1300) }],
            into_inner: true,
            arm_before_open: false,
            read_back_armed: false,
            extra: None,
        },
        // stream writers used the way std::io writers are: position queries and seeks between write and flush,
        // one large write_all, several small writes
        Script {
            name: "stream-writer-position-then-flush",
            setup: Some(base.clone()),
            ops: vec![],
            into_inner: false,
            arm_before_open: false,
            read_back_armed: false,
            extra: Some(|p| {
                use std::io::{Seek, SeekFrom, Write};
                let mut w = p.write_stream("Pos.bin")?;
                w.write_all(&[7u8; 3000])?;
                let _ = w.stream_position()?;
                w.flush()?;
                drop(w);
                let mut w = p.write_stream("Seek.bin")?;
                w.write_all(&[8u8; 5000])?;
                w.seek(SeekFrom::Start(10))?;
                w.write_all(&[9u8; 4])?;
                w.seek(SeekFrom::End(0))?;
                w.flush()?;
                drop(w);
                let mut w = p.write_stream("Chunks.bin")?;
                for i in 0..40u8 {
                    w.write_all(&[i; 700])?;
                }
                w.flush()
            }),
        },
        Script {
            name: "stream-writer-10KB-single-write",
            setup: Some(base.clone()),
            ops: vec![],
            into_inner: true,
            arm_before_open: false,
            read_back_armed: false,
            extra: Some(|p| {
                use std::io::Write;
                let mut w = p.write_stream("TenK.bin")?;
                w.write_all(&(0..10_000u32).map(|i| (i % 239) as u8).collect::<Vec<u8>>())?;
                w.flush()
            }),
        },
        Script { name: "package-create", setup: None, ops: vec![create("T"), ins("T", rows3)], into_inner: false, arm_before_open: false, read_back_armed: false, extra: None },
    ]
}

fn base_image(setup: &[Op]) -> Vec<u8> {
    let mut s = Session::create("Installer").expect("create");
    let mut scratch = Report::new();
    for op in setup {
        s.apply(op, &Monitors::default(), &mut scratch).expect("setup op");
    }
    let pkg = s.pkg.take().unwrap();
    pkg.into_inner().expect("into_inner");
    s.med.live()
}

pub struct RunOutcome {
    pub all_ok: bool,
    pub first_err: Option<String>,
    pub panic: Option<crate::panicmon::PanicInfo>,
    pub fired: u64,
    pub site: Option<String>,
    pub counts: crate::medium::Counts,
    pub bytes: Vec<u8>,
    /// what the API returned while the fault plan was armed (scripts with `read_back_armed`)
    pub read_back: Option<Obs>,
}

/// Runs the script on a fresh medium with the given fault armed.
pub fn run_script(sc: &Script, base: Option<&[u8]>, fault: Option<Fault>) -> RunOutcome {
    let med = match base {
        Some(b) => Medium::from_bytes(b.to_vec()),
        None => Medium::new(),
    };
    let mut out = RunOutcome { all_ok: true, first_err: None, panic: None, fired: 0, site: None, counts: Default::default(), bytes: Vec::new(), read_back: None };
    let mut pkg_opt = None;
    let plan = fault.unwrap_or(Fault { kind: FaultKind::Write, at: u64::MAX, persistent: false, as_eof: false });
    if sc.arm_before_open {
        med.arm(plan);
    }
    if base.is_some() {
        // opening is done fault-free (unless the script says otherwise); the fault plan counts from where it is armed
        match guarded(|| msi::Package::open(med.handle())) {
            Ok(Ok(p)) => pkg_opt = Some(p),
            Ok(Err(e)) => {
                out.all_ok = false;
                out.first_err = Some(format!("open: {}", e));
            }
            Err(p) => {
                out.all_ok = false;
                out.panic = Some(p);
            }
        }
    }
    if !sc.arm_before_open {
        med.arm(plan);
    }
    if base.is_none() {
        match guarded(|| msi::Package::create(msi::PackageType::Installer, med.handle())) {
            Ok(Ok(p)) => pkg_opt = Some(p),
            Ok(Err(e)) => {
                out.all_ok = false;
                out.first_err = Some(format!("create: {}", e));
            }
            Err(p) => {
                out.all_ok = false;
                out.panic = Some(p);
            }
        }
    }
    if let Some(mut pkg) = pkg_opt {
        for op in &sc.ops {
            if !out.all_ok {
                break;
            }
            match guarded(|| exec_op(&mut pkg, op)) {
                Ok(Ok(())) => {}
                Ok(Err(e)) => {
                    out.all_ok = false;
                    out.first_err = Some(format!("{}: {}", op.kind(), e));
                }
                Err(p) => {
                    out.all_ok = false;
                    out.panic = Some(p);
                }
            }
        }
        if let Some(f) = sc.extra {
            if out.all_ok {
                match guarded(|| f(&mut pkg)) {
                    Ok(Ok(())) => {}
                    Ok(Err(e)) => {
                        out.all_ok = false;
                        out.first_err = Some(format!("direct calls: {}", e));
                    }
                    Err(p) => {
                        out.all_ok = false;
                        out.panic = Some(p);
                    }
                }
            }
        }
        if sc.read_back_armed && out.all_ok && out.panic.is_none() {
            match guarded(|| crate::observe::observe(&mut pkg)) {
                Ok(Ok((o, _))) => out.read_back = Some(o),
                Ok(Err(e)) => {
                    out.all_ok = false;
                    out.first_err = Some(format!("read back: {}", e));
                }
                Err(p) => {
                    out.all_ok = false;
                    out.panic = Some(p);
                }
            }
        }
        if out.panic.is_some() {
            std::mem::forget(pkg);
        } else if out.all_ok {
            let r = if sc.into_inner {
                guarded(move || pkg.into_inner().map(|_| ()))
            } else {
                guarded(move || {
                    let r = pkg.flush();
                    if r.is_err() {
                        // a caller that retries after a reported failure must not be met with a panic
                        let _ = pkg.flush();
                    }
                    r
                })
            };
            match r {
                Ok(Ok(())) => {}
                Ok(Err(e)) => {
                    out.all_ok = false;
                    out.first_err = Some(format!("{}: {}", if sc.into_inner { "into_inner" } else { "flush" }, e));
                }
                Err(p) => {
                    out.all_ok = false;
                    out.panic = Some(p);
                }
            }
        } else {
            // an earlier call failed: what a caller typically does next - try to save, give up, drop - must not
            // panic either (no obligation on the results)
            let r = guarded(move || {
                let _ = pkg.flush();
                let _ = pkg.flush();
                drop(pkg)
            });
            if let Err(p) = r {
                out.panic = Some(p);
            }
        }
    }
    out.fired = med.fired();
    out.site = med.fire_site();
    out.counts = med.armed_counts();
    med.disarm();
    out.bytes = med.live();
    out
}

fn check_run(rep: &mut Report, sc: &Script, base: Option<&[u8]>, expected: &Obs, fault: Fault) {
    let o = run_script(sc, base, Some(fault));
    rep.count("faulted_runs");
    let kind = format!("{:?}", fault.kind).to_lowercase();
    let w = json!({"kind": "fault", "script": sc.name, "fault_kind": kind, "at": fault.at, "persistent": fault.persistent, "as_eof": fault.as_eof, "site": o.site});
    if let Some(p) = &o.panic {
        if p.in_harness() {
            rep.inconclusive.push(format!("harness panic: {} at {}", p.message, p.location));
        } else {
            rep.count("outcome_panic");
            rep.violation(format!("C15/panic/{}", p.signature()), format!("script {} with {} fault at call {}: panic: {} at {}", sc.name, kind, fault.at, p.message, p.location), w);
        }
        return;
    }
    if o.fired == 0 {
        rep.count("outcome_fault_not_reached");
        rep.case(None);
        return;
    }
    rep.count(&format!("faults_fired_{}", kind));
    rep.case(Some(fnv(format!("{}:{}:{}:{}", sc.name, kind, fault.persistent, o.site.clone().unwrap_or_default()).as_bytes())));
    if !o.all_ok {
        rep.count("outcome_error_reported");
        return;
    }
    // everything read through the API while the fault was armed came back Ok: it must be what is in the file
    if let Some(rb) = &o.read_back {
        if let Some(d) = expected.diff(rb) {
            rep.count("outcome_wrong_read");
            rep.violation(
                format!("C15/wrong-read/{}/{}/{}", sc.name, kind, o.site.clone().unwrap_or_default()),
                format!(
                    "script {}: {} {} fault at call {} (site {}): every read returned Ok, but what was read differs from the file: {}",
                    sc.name,
                    if fault.persistent { "persistent" } else { "transient" },
                    kind,
                    fault.at,
                    o.site.clone().unwrap_or_default(),
                    d
                ),
                w,
            );
            return;
        }
        rep.count("outcome_ok_read_and_good");
    }
    // every call including the final flush / into_inner returned Ok: the data must be on the medium
    match reopen_observe(&o.bytes) {
        Ok(obs) => match expected.diff(&obs) {
            None => rep.count("outcome_ok_and_good"),
            Some(d) => {
                rep.count("outcome_silent_loss");
                rep.violation(
                    format!("C15/lost/{}/{}/{}", sc.name, kind, o.site.clone().unwrap_or_default()),
                    format!(
                        "script {}: {} {} fault at call {} (site {}): every call and the final {} returned Ok, but reopening the medium gives: {}",
                        sc.name,
                        if fault.persistent { "persistent" } else { "transient" },
                        kind,
                        fault.at,
                        o.site.clone().unwrap_or_default(),
                        if sc.into_inner { "into_inner" } else { "flush" },
                        d
                    ),
                    w,
                );
            }
        },
        Err(e) => {
            rep.count("outcome_silent_loss");
            rep.violation(
                format!("C15/unreadable/{}/{}/{}", sc.name, kind, o.site.clone().unwrap_or_default()),
                format!(
                    "script {}: {} {} fault at call {} (site {}): every call and the final {} returned Ok, but the medium cannot be reopened: {}",
                    sc.name,
                    if fault.persistent { "persistent" } else { "transient" },
                    kind,
                    fault.at,
                    o.site.clone().unwrap_or_default(),
                    if sc.into_inner { "into_inner" } else { "flush" },
                    e
                ),
                w,
            );
        }
    }
}

pub fn run(ctx: &Ctx) -> Report {
    let all = scripts();
    if let Some(w) = &ctx.replay {
        let mut rep = Report::new();
        if let Some(sc) = all.iter().find(|s| Some(s.name) == w["script"].as_str()) {
            let base = sc.setup.as_ref().map(|s| base_image(s));
            let good = run_script(sc, base.as_deref(), None);
            if let Ok(exp) = reopen_observe(&good.bytes) {
                let kind = match w["fault_kind"].as_str() {
                    Some("read") => FaultKind::Read,
                    Some("seek") => FaultKind::Seek,
                    Some("flush") => FaultKind::Flush,
                    _ => FaultKind::Write,
                };
                check_run(&mut rep, sc, base.as_deref(), &exp, Fault { kind, at: w["at"].as_u64().unwrap_or(0), persistent: w["persistent"].as_bool().unwrap_or(false), as_eof: w["as_eof"].as_bool().unwrap_or(false) });
            }
        } else {
            rep.inconclusive.push("unknown script in replay".into());
        }
        return rep;
    }
    let quick = ctx.quick();
    // prepare: base images, fault-free reference runs, call counts
    struct Prep {
        sc: Script,
        base: Option<Vec<u8>>,
        expected: Obs,
        counts: crate::medium::Counts,
    }
    let mut preps: Vec<Prep> = Vec::new();
    let mut rep0 = Report::new();
    for sc in all {
        let base = sc.setup.as_ref().map(|s| base_image(s));
        let good = run_script(&sc, base.as_deref(), None);
        if !good.all_ok || good.panic.is_some() {
            rep0.inconclusive.push(format!("script {} does not run fault-free: {:?}", sc.name, good.first_err));
            continue;
        }
        match reopen_observe(&good.bytes) {
            Ok(expected) => preps.push(Prep { sc, base, expected, counts: good.counts }),
            Err(e) => rep0.inconclusive.push(format!("script {}: fault-free result does not reopen: {}", sc.name, e)),
        }
    }
    // work list
    let mut work: Vec<(usize, Fault)> = Vec::new();
    for (pi, p) in preps.iter().enumerate() {
        let is_create = p.sc.setup.is_none();
        let stride_w = if is_create { if quick { 37 } else { 1 } } else { 1 };
        let big = p.counts.writes > 1500;
        let stride_w = if big && quick { stride_w.max(5) } else { stride_w };
        let stride_rs = if p.sc.arm_before_open || p.sc.read_back_armed { 1 } else if quick { if is_create || big { 41 } else { 3 } } else if is_create { 3 } else { 1 };
        for k in (0..p.counts.writes).step_by(stride_w) {
            for persistent in [false, true] {
                work.push((pi, Fault { kind: FaultKind::Write, at: k, persistent, as_eof: false }));
            }
        }
        for k in (0..p.counts.reads).step_by(stride_rs) {
            for persistent in [false, true] {
                work.push((pi, Fault { kind: FaultKind::Read, at: k, persistent, as_eof: false }));
                // a medium that lost its tail reports the failure as an unexpected end of file
                if p.sc.arm_before_open || p.sc.read_back_armed {
                    work.push((pi, Fault { kind: FaultKind::Read, at: k, persistent, as_eof: true }));
                }
            }
        }
        for k in (0..p.counts.seeks).step_by(stride_rs) {
            for persistent in [false, true] {
                work.push((pi, Fault { kind: FaultKind::Seek, at: k, persistent, as_eof: false }));
            }
        }
        for k in 0..p.counts.flushes {
            for persistent in [false, true] {
                work.push((pi, Fault { kind: FaultKind::Flush, at: k, persistent, as_eof: false }));
            }
        }
        rep0.add(&format!("io_calls_{}_writes", p.sc.name), p.counts.writes);
        rep0.add(&format!("io_calls_{}_reads", p.sc.name), p.counts.reads);
        rep0.add(&format!("io_calls_{}_seeks", p.sc.name), p.counts.seeks);
    }
    let preps_ref = &preps;
    let work_ref = &work;
    let mut rep = parallel(ctx.threads, |shard, n| {
        let mut rep = Report::new();
        for (i, (pi, fault)) in work_ref.iter().enumerate() {
            if i % n != shard {
                continue;
            }
            let p = &preps_ref[*pi];
            check_run(&mut rep, &p.sc, p.base.as_deref(), &p.expected, *fault);
        }
        rep
    });
    rep.merge(rep0);
    rep.add("scripts", preps.len() as u64);
    if !quick {
        rep.exhaustive_parts.push("every write, read, seek and flush index of each script, transient and persistent (Package::create: reads/seeks at stride 3)".into());
    } else {
        rep.exhaustive_parts.push("every write index of every script region (stride 5 for >1500-write scripts, stride 37 for Package::create), reads/seeks at stride 3, transient and persistent".into());
    }
    rep.sample(json!({"script": "update+delete", "fault": {"kind": "write", "at": 17, "persistent": false}, "oracle": "panic => violation; some call Err => no obligation; all Ok incl. into_inner => reopen(bytes) must equal the fault-free result"}));
    rep.sample(json!({"script": "package-create", "fault": {"kind": "write", "at": 2960, "persistent": true}}));
    rep.sample(json!({"script": "70KB-stream", "fault": {"kind": "seek", "at": 3, "persistent": false}}));
    rep
}
