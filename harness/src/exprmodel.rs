//! Reference expression model: own AST, evaluator with *admissible sets*
//! (where the documentation permits two results – arithmetic overflow,
//! out-of-range shift: "null or the wrapped value"; cross-type ordering
//! comparisons: "0 or 1"), lowering to `msi::Expr` through the public
//! constructors only.

use crate::prng::Rng;
use crate::types::V;
use std::collections::BTreeSet;

#[derive(Clone, Copy, Debug, PartialEq, Eq, Hash, PartialOrd, Ord)]
pub enum Un {
    Neg,
    BitNot,
    Not,
}

#[derive(Clone, Copy, Debug, PartialEq, Eq, Hash, PartialOrd, Ord)]
pub enum Bin {
    Eq,
    Ne,
    Lt,
    Le,
    Gt,
    Ge,
    Add,
    Sub,
    Mul,
    Div,
    BitAnd,
    BitOr,
    BitXor,
    Shl,
    Shr,
}

pub const ALL_UN: [Un; 3] = [Un::Neg, Un::BitNot, Un::Not];
pub const ALL_BIN: [Bin; 15] = [
    Bin::Eq,
    Bin::Ne,
    Bin::Lt,
    Bin::Le,
    Bin::Gt,
    Bin::Ge,
    Bin::Add,
    Bin::Sub,
    Bin::Mul,
    Bin::Div,
    Bin::BitAnd,
    Bin::BitOr,
    Bin::BitXor,
    Bin::Shl,
    Bin::Shr,
];

#[derive(Clone, Debug, PartialEq, Eq, Hash)]
pub enum MExpr {
    Lit(V),
    Col(String),
    Un(Un, Box<MExpr>),
    Bin(Bin, Box<MExpr>, Box<MExpr>),
    And(Box<MExpr>, Box<MExpr>),
    Or(Box<MExpr>, Box<MExpr>),
}

impl Bin {
    pub fn sym(&self) -> &'static str {
        match self {
            Bin::Eq => "=",
            Bin::Ne => "!=",
            Bin::Lt => "<",
            Bin::Le => "<=",
            Bin::Gt => ">",
            Bin::Ge => ">=",
            Bin::Add => "+",
            Bin::Sub => "-",
            Bin::Mul => "*",
            Bin::Div => "/",
            Bin::BitAnd => "&",
            Bin::BitOr => "|",
            Bin::BitXor => "^",
            Bin::Shl => "<<",
            Bin::Shr => ">>",
        }
    }
}

impl Un {
    pub fn sym(&self) -> &'static str {
        match self {
            Un::Neg => "-",
            Un::BitNot => "~",
            Un::Not => "NOT ",
        }
    }
}

/// Fully parenthesised text (harness notation, used in samples/witnesses).
pub fn show(e: &MExpr) -> String {
    match e {
        MExpr::Lit(V::Null) => "NULL".into(),
        MExpr::Lit(V::Int(i)) => format!("{}", i),
        MExpr::Lit(V::Str(s)) => format!("{:?}", s),
        MExpr::Col(c) => c.clone(),
        MExpr::Un(op, a) => format!("({}{})", op.sym(), show(a)),
        MExpr::Bin(op, a, b) => format!("({} {} {})", show(a), op.sym(), show(b)),
        MExpr::And(a, b) => format!("({} AND {})", show(a), show(b)),
        MExpr::Or(a, b) => format!("({} OR {})", show(a), show(b)),
    }
}

pub fn depth(e: &MExpr) -> usize {
    match e {
        MExpr::Lit(_) | MExpr::Col(_) => 0,
        MExpr::Un(_, a) => 1 + depth(a),
        MExpr::Bin(_, a, b) | MExpr::And(a, b) | MExpr::Or(a, b) => 1 + depth(a).max(depth(b)),
    }
}

pub fn columns_of(e: &MExpr, out: &mut BTreeSet<String>) {
    match e {
        MExpr::Lit(_) => {}
        MExpr::Col(c) => {
            out.insert(c.clone());
        }
        MExpr::Un(_, a) => columns_of(a, out),
        MExpr::Bin(_, a, b) | MExpr::And(a, b) | MExpr::Or(a, b) => {
            columns_of(a, out);
            columns_of(b, out);
        }
    }
}

/// Lowers to the library's expression type through public constructors only.
pub fn lower(e: &MExpr) -> msi::Expr {
    use msi::Expr as E;
    match e {
        MExpr::Lit(V::Null) => E::null(),
        MExpr::Lit(V::Int(i)) => E::integer(*i),
        MExpr::Lit(V::Str(s)) => E::string(s.clone()),
        MExpr::Col(c) => E::col(c.clone()),
        MExpr::Un(Un::Neg, a) => -lower(a),
        MExpr::Un(Un::BitNot, a) => lower(a).bitinv(),
        MExpr::Un(Un::Not, a) => lower(a).not(),
        MExpr::And(a, b) => lower(a).and(lower(b)),
        MExpr::Or(a, b) => lower(a).or(lower(b)),
        MExpr::Bin(op, a, b) => {
            let (x, y) = (lower(a), lower(b));
            match op {
                Bin::Eq => x.eq(y),
                Bin::Ne => x.ne(y),
                Bin::Lt => x.lt(y),
                Bin::Le => x.le(y),
                Bin::Gt => x.gt(y),
                Bin::Ge => x.ge(y),
                Bin::Add => x + y,
                Bin::Sub => x - y,
                Bin::Mul => x * y,
                Bin::Div => x / y,
                Bin::BitAnd => x & y,
                Bin::BitOr => x | y,
                Bin::BitXor => x ^ y,
                Bin::Shl => x << y,
                Bin::Shr => x >> y,
            }
        }
    }
}

/// Admissible result set of an evaluation.
#[derive(Clone, Debug, PartialEq, Eq)]
pub struct Adm(pub BTreeSet<V>);

impl Adm {
    pub fn one(v: V) -> Adm {
        let mut s = BTreeSet::new();
        s.insert(v);
        Adm(s)
    }
    pub fn two(a: V, b: V) -> Adm {
        let mut s = BTreeSet::new();
        s.insert(a);
        s.insert(b);
        Adm(s)
    }
    pub fn contains(&self, v: &V) -> bool {
        self.0.contains(v)
    }
    pub fn is_exact(&self) -> bool {
        self.0.len() == 1
    }
    /// Some(truth) when every admissible value has the same truthiness.
    pub fn truth(&self) -> Option<bool> {
        let mut it = self.0.iter().map(|v| v.truthy());
        let first = it.next()?;
        if it.all(|t| t == first) {
            Some(first)
        } else {
            None
        }
    }
    pub fn single(&self) -> Option<&V> {
        if self.0.len() == 1 {
            self.0.iter().next()
        } else {
            None
        }
    }
}

const ADM_CAP: usize = 64;

fn b(x: bool) -> V {
    V::Int(if x { 1 } else { 0 })
}

fn same_type(a: &V, b: &V) -> bool {
    matches!((a, b), (V::Null, V::Null) | (V::Int(_), V::Int(_)) | (V::Str(_), V::Str(_)))
}

/// Documented operator table on two concrete operands.
pub fn bin_results(op: Bin, x: &V, y: &V) -> Adm {
    use V::*;
    match op {
        Bin::Eq => Adm::one(b(x == y)),
        Bin::Ne => Adm::one(b(x != y)),
        Bin::Lt | Bin::Le | Bin::Gt | Bin::Ge => {
            if same_type(x, y) {
                let r = match op {
                    Bin::Lt => x < y,
                    Bin::Le => x <= y,
                    Bin::Gt => x > y,
                    _ => x >= y,
                };
                Adm::one(b(r))
            } else {
                // ordering across types is not defined by the documentation
                Adm::two(V::Int(0), V::Int(1))
            }
        }
        Bin::Add => match (x, y) {
            (Int(p), Int(q)) => match p.checked_add(*q) {
                Some(r) => Adm::one(Int(r)),
                None => Adm::two(Null, Int(p.wrapping_add(*q))),
            },
            (Str(p), Str(q)) => Adm::one(Str(format!("{}{}", p, q))),
            _ => Adm::one(Null),
        },
        Bin::Sub => match (x, y) {
            (Int(p), Int(q)) => match p.checked_sub(*q) {
                Some(r) => Adm::one(Int(r)),
                None => Adm::two(Null, Int(p.wrapping_sub(*q))),
            },
            _ => Adm::one(Null),
        },
        Bin::Mul => match (x, y) {
            (Int(p), Int(q)) => match p.checked_mul(*q) {
                Some(r) => Adm::one(Int(r)),
                None => Adm::two(Null, Int(p.wrapping_mul(*q))),
            },
            _ => Adm::one(Null),
        },
        Bin::Div => match (x, y) {
            (Int(_), Int(0)) => Adm::one(Null),
            (Int(p), Int(q)) => match p.checked_div(*q) {
                Some(r) => Adm::one(Int(r)),
                None => Adm::two(Null, Int(p.wrapping_div(*q))),
            },
            _ => Adm::one(Null),
        },
        Bin::BitAnd => match (x, y) {
            (Int(p), Int(q)) => Adm::one(Int(p & q)),
            _ => Adm::one(Null),
        },
        Bin::BitOr => match (x, y) {
            (Int(p), Int(q)) => Adm::one(Int(p | q)),
            _ => Adm::one(Null),
        },
        Bin::BitXor => match (x, y) {
            (Int(p), Int(q)) => Adm::one(Int(p ^ q)),
            _ => Adm::one(Null),
        },
        Bin::Shl => match (x, y) {
            (Int(p), Int(q)) => {
                if (0..32).contains(q) {
                    Adm::one(Int(p.wrapping_shl(*q as u32)))
                } else {
                    Adm::two(Null, Int(p.wrapping_shl(*q as u32)))
                }
            }
            _ => Adm::one(Null),
        },
        Bin::Shr => match (x, y) {
            (Int(p), Int(q)) => {
                if (0..32).contains(q) {
                    Adm::one(Int(p.wrapping_shr(*q as u32)))
                } else {
                    Adm::two(Null, Int(p.wrapping_shr(*q as u32)))
                }
            }
            _ => Adm::one(Null),
        },
    }
}

pub fn un_results(op: Un, x: &V) -> Adm {
    match op {
        Un::Neg => match x {
            V::Int(p) => match p.checked_neg() {
                Some(r) => Adm::one(V::Int(r)),
                None => Adm::two(V::Null, V::Int(p.wrapping_neg())),
            },
            _ => Adm::one(V::Null),
        },
        Un::BitNot => match x {
            V::Int(p) => Adm::one(V::Int(!p)),
            _ => Adm::one(V::Null),
        },
        Un::Not => Adm::one(b(!x.truthy())),
    }
}

/// Row environment: column name -> admissible cell values (a cell written as
/// "" may be seen as "" or null, so it is the set {"", null}).
pub trait Env {
    fn get(&self, name: &str) -> Option<Adm>;
}

impl Env for Vec<(String, V)> {
    fn get(&self, name: &str) -> Option<Adm> {
        // first match, like the documented lookup
        self.iter().find(|(n, _)| n == name).map(|(_, v)| cell_adm(v))
    }
}

pub fn cell_adm(v: &V) -> Adm {
    match v {
        V::Str(s) if s.is_empty() => Adm::two(V::Null, V::Str(String::new())),
        v => Adm::one(v.clone()),
    }
}

/// Evaluates to the admissible set; `None` when a column is unknown or the set
/// grows beyond the cap (treated as "not decided" by callers).
pub fn eval(e: &MExpr, env: &dyn Env) -> Option<Adm> {
    match e {
        MExpr::Lit(v) => Some(Adm::one(v.clone())),
        MExpr::Col(c) => env.get(c),
        MExpr::Un(op, a) => {
            let xs = eval(a, env)?;
            let mut out = BTreeSet::new();
            for x in &xs.0 {
                out.extend(un_results(*op, x).0);
            }
            cap(out)
        }
        MExpr::Bin(op, a, bb) => {
            let xs = eval(a, env)?;
            let ys = eval(bb, env)?;
            let mut out = BTreeSet::new();
            for x in &xs.0 {
                for y in &ys.0 {
                    out.extend(bin_results(*op, x, y).0);
                }
            }
            cap(out)
        }
        MExpr::And(a, bb) => {
            let xs = eval(a, env)?;
            let mut out = BTreeSet::new();
            for x in &xs.0 {
                if x.truthy() {
                    let ys = eval(bb, env)?;
                    for y in &ys.0 {
                        out.insert(b(y.truthy()));
                    }
                } else {
                    out.insert(b(false));
                }
            }
            cap(out)
        }
        MExpr::Or(a, bb) => {
            let xs = eval(a, env)?;
            let mut out = BTreeSet::new();
            for x in &xs.0 {
                if x.truthy() {
                    out.insert(b(true));
                } else {
                    let ys = eval(bb, env)?;
                    for y in &ys.0 {
                        out.insert(b(y.truthy()));
                    }
                }
            }
            cap(out)
        }
    }
}

fn cap(s: BTreeSet<V>) -> Option<Adm> {
    if s.len() > ADM_CAP {
        None
    } else {
        Some(Adm(s))
    }
}

/// The leaf battery of C13.
pub fn leaf_values() -> Vec<V> {
    vec![
        V::Null,
        V::Int(0),
        V::Int(1),
        V::Int(-1),
        V::Int(2),
        V::Int(31),
        V::Int(32),
        V::Int(i32::MIN),
        V::Int(i32::MAX),
        V::s(""),
        V::s("a"),
        V::s("b"),
    ]
}

/// Random tree; leaves are either literals from `lits` or one of `cols`.
pub fn random_expr(rng: &mut Rng, depth: usize, lits: &[V], cols: &[String]) -> MExpr {
    if depth == 0 || rng.chance(1, 5) {
        if !cols.is_empty() && (lits.is_empty() || rng.chance(1, 2)) {
            return MExpr::Col(rng.pick(cols).clone());
        }
        return MExpr::Lit(rng.pick(lits).clone());
    }
    match rng.below(20) {
        0..=2 => MExpr::Un(*rng.pick(&ALL_UN), Box::new(random_expr(rng, depth - 1, lits, cols))),
        3..=4 => MExpr::And(
            Box::new(random_expr(rng, depth - 1, lits, cols)),
            Box::new(random_expr(rng, depth - 1, lits, cols)),
        ),
        5..=6 => MExpr::Or(
            Box::new(random_expr(rng, depth - 1, lits, cols)),
            Box::new(random_expr(rng, depth - 1, lits, cols)),
        ),
        _ => MExpr::Bin(
            *rng.pick(&ALL_BIN),
            Box::new(random_expr(rng, depth - 1, lits, cols)),
            Box::new(random_expr(rng, depth - 1, lits, cols)),
        ),
    }
}
