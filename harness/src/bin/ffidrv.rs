fn main(){}
