//! Calls the `msi_ffi` exports through the C ABI on every file given on the
//! command line: get_information / free_information, then get_table /
//! free_table for every reported table and one unknown table.
//!
//! Prints `FILE <path>` (flushed) before each file so that a supervisor can
//! attribute an abort, and `DONE <files> <calls> <tables> <rows>` at the end.
//! No allocation tracking of its own, so leak checkers see the library's
//! allocations unobscured.

use msi_ffi as _;
use safer_ffi::prelude::*;
use std::io::Write;

#[repr(C)]
pub struct MsiInformationMirror {
    arch: repr_c::String,
    author: repr_c::String,
    comments: repr_c::String,
    creating_application: repr_c::String,
    creation_time: repr_c::String,
    languages: repr_c::Vec<repr_c::String>,
    subject: repr_c::String,
    title: repr_c::String,
    uuid: repr_c::String,
    word_count: i32,
    has_digital_signature: bool,
    table_names: repr_c::Vec<repr_c::String>,
}

#[allow(improper_ctypes)]
extern "C" {
    fn get_information(path: char_p::Ref<'_>) -> MsiInformationMirror;
    fn free_information(info: MsiInformationMirror);
    fn get_table(path: char_p::Ref<'_>, table_name: char_p::Ref<'_>) -> repr_c::Vec<repr_c::Vec<repr_c::String>>;
    fn free_table(table: repr_c::Vec<repr_c::Vec<repr_c::String>>);
}

fn main() {
    let args: Vec<String> = std::env::args().skip(1).collect();
    let mut files: Vec<String> = Vec::new();
    for a in args {
        if std::path::Path::new(&a).is_dir() {
            let mut v: Vec<String> = std::fs::read_dir(&a).map(|d| d.filter_map(|e| e.ok()).map(|e| e.path().to_string_lossy().to_string()).collect()).unwrap_or_default();
            v.sort();
            files.extend(v);
        } else {
            files.push(a);
        }
    }
    let out = std::io::stdout();
    let (mut n_calls, mut n_tables, mut n_rows) = (0u64, 0u64, 0u64);
    let mut checksum = 0u64;
    for f in &files {
        {
            let mut o = out.lock();
            let _ = writeln!(o, "FILE {}", f);
            let _ = o.flush();
        }
        let cpath = match char_p::new(f.as_str()) {
            p => p,
        };
        let info = unsafe { get_information(cpath.as_ref()) };
        n_calls += 1;
        // touch every field
        for s in [&info.arch, &info.author, &info.comments, &info.creating_application, &info.creation_time, &info.subject, &info.title, &info.uuid] {
            checksum = checksum.wrapping_add(s.len() as u64).wrapping_add(s.bytes().map(|b| b as u64).sum::<u64>());
        }
        checksum = checksum.wrapping_add(info.word_count as u64).wrapping_add(info.has_digital_signature as u64);
        for l in info.languages.iter() {
            checksum = checksum.wrapping_add(l.len() as u64);
        }
        let mut names: Vec<String> = info.table_names.iter().map(|s| s.to_string()).collect();
        names.push("NoSuchTable".to_string());
        unsafe { free_information(info) };
        n_calls += 1;
        for t in names.iter().take(12) {
            if t.contains('\0') {
                continue;
            }
            let ct = char_p::new(t.as_str());
            let table = unsafe { get_table(cpath.as_ref(), ct.as_ref()) };
            n_calls += 1;
            n_tables += 1;
            for row in table.iter() {
                n_rows += 1;
                for cell in row.iter() {
                    checksum = checksum.wrapping_add(cell.len() as u64);
                }
            }
            unsafe { free_table(table) };
            n_calls += 1;
        }
    }
    println!("DONE {} {} {} {} {}", files.len(), n_calls, n_tables, n_rows, checksum);
}
