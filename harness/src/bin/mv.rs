//! `mv <ID> --tier quick|thorough --seed N --threads N --out FILE [--replay FILE]`
use mvcore::{Ctx, Tier};
use std::time::Instant;

#[global_allocator]
static ALLOC: mvcore::allocmon::Monitor = mvcore::allocmon::Monitor;

fn main() {
    let args: Vec<String> = std::env::args().collect();
    if args.len() < 2 {
        eprintln!("usage: mv <ID> [--tier quick|thorough] [--seed N] [--threads N] [--out FILE] [--replay FILE]");
        std::process::exit(2);
    }
    let id = args[1].clone();
    if id == "C09W" {
        std::process::exit(mvcore::props::c09::worker_main(&args[2..]));
    }
    if id == "C09-corpus" {
        let dir = args.get(2).expect("C09-corpus DIR SEED COUNT");
        let seed: u64 = args.get(3).and_then(|v| v.parse().ok()).unwrap_or(1);
        let count: u64 = args.get(4).and_then(|v| v.parse().ok()).unwrap_or(100);
        match mvcore::props::c09::emit_corpus(dir, seed, count) {
            Ok(n) => {
                println!("{} files", n);
                std::process::exit(0);
            }
            Err(e) => {
                eprintln!("emit corpus failed: {}", e);
                std::process::exit(2);
            }
        }
    }
    let mut tier = Tier::Quick;
    let mut seed: u64 = 1;
    let mut threads: usize = std::thread::available_parallelism().map(|n| n.get()).unwrap_or(4).min(16);
    let mut out: Option<String> = None;
    let mut replay = None;
    let mut scale = std::env::var("VERIF_SCALE").ok().and_then(|s| s.parse::<f64>().ok()).unwrap_or(1.0);
    let mut i = 2;
    while i < args.len() {
        let a = args[i].as_str();
        let val = args.get(i + 1).cloned();
        match a {
            "--tier" => {
                tier = if val.as_deref() == Some("thorough") { Tier::Thorough } else { Tier::Quick };
                i += 1;
            }
            "--seed" => {
                seed = val.and_then(|v| v.parse().ok()).unwrap_or(1);
                i += 1;
            }
            "--threads" => {
                threads = val.and_then(|v| v.parse().ok()).unwrap_or(threads);
                i += 1;
            }
            "--scale" => {
                scale = val.and_then(|v| v.parse().ok()).unwrap_or(scale);
                i += 1;
            }
            "--out" => {
                out = val;
                i += 1;
            }
            "--replay" => {
                let path = val.expect("--replay FILE");
                let text = std::fs::read_to_string(&path).expect("read replay file");
                replay = Some(serde_json::from_str(&text).expect("replay file is JSON"));
                i += 1;
            }
            _ => {
                eprintln!("unknown argument {}", a);
                std::process::exit(2);
            }
        }
        i += 1;
    }
    mvcore::panicmon::install();
    let profile = if cfg!(debug_assertions) { "checked" } else { "release" };
    let ctx = Ctx { tier, seed, threads, profile: profile.to_string(), replay, scale };
    let start = Instant::now();
    let report = match mvcore::props::run(&id, &ctx) {
        Some(r) => r,
        None => {
            eprintln!("unknown property {}", id);
            std::process::exit(2);
        }
    };
    let wall = start.elapsed().as_secs_f64();
    let mut doc = report.to_json();
    doc["property_id"] = serde_json::json!(id);
    doc["profile"] = serde_json::json!(profile);
    doc["seed"] = serde_json::json!(seed);
    doc["tier"] = serde_json::json!(if tier == Tier::Quick { "quick" } else { "thorough" });
    doc["wall_s"] = serde_json::json!(wall);
    let text = serde_json::to_string(&doc).unwrap();
    match out {
        Some(p) => std::fs::write(p, text).expect("write --out"),
        None => println!("{}", text),
    }
    eprintln!(
        "[mv {} {} seed={}] evaluations={} distinct={} violations={} inconclusive={} wall={:.1}s",
        id,
        profile,
        seed,
        report.evaluations,
        report.fingerprints.len(),
        report.violations.len(),
        report.inconclusive.len(),
        wall
    );
}
