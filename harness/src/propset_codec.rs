//! Independent parser / encoder of the OLE property-set stream that holds the
//! summary information (written from the format description).

use crate::cpora;
use std::collections::BTreeMap;

pub const FMTID_SUMMARY: [u8; 16] = [0xe0, 0x85, 0x9f, 0xf2, 0xf9, 0x4f, 0x68, 0x10, 0xab, 0x91, 0x08, 0x00, 0x2b, 0x27, 0xb3, 0xd9];

#[derive(Clone, Debug, PartialEq, Eq)]
pub enum PVal {
    Empty,
    Null,
    I1(i8),
    I2(i16),
    I4(i32),
    /// raw bytes without the terminator
    LpStr(Vec<u8>),
    FileTime(u64),
}

#[derive(Clone, Debug, Default)]
pub struct ParsedPropSet {
    pub version: u16,
    pub os: u16,
    pub os_version: u16,
    pub section_offset: u32,
    pub section_size: u32,
    pub fmtid: [u8; 16],
    /// id -> (offset within section, value)
    pub props: BTreeMap<u32, (u32, PVal)>,
    pub problems: Vec<String>,
    pub stream_len: usize,
}

fn u16at(b: &[u8], at: usize) -> Option<u16> {
    b.get(at..at + 2).map(|s| u16::from_le_bytes([s[0], s[1]]))
}
fn u32at(b: &[u8], at: usize) -> Option<u32> {
    b.get(at..at + 4).map(|s| u32::from_le_bytes([s[0], s[1], s[2], s[3]]))
}
fn u64at(b: &[u8], at: usize) -> Option<u64> {
    b.get(at..at + 8).map(|s| u64::from_le_bytes([s[0], s[1], s[2], s[3], s[4], s[5], s[6], s[7]]))
}

/// Size a typed value occupies (type word included, padded to 4).
fn value_at(b: &[u8], at: usize) -> Result<(PVal, usize), String> {
    let ty = u32at(b, at).ok_or("value type beyond the stream")?;
    match ty {
        0 => Ok((PVal::Empty, 4)),
        1 => Ok((PVal::Null, 4)),
        2 => Ok((PVal::I2(u16at(b, at + 4).ok_or("I2 beyond the stream")? as i16), 8)),
        3 => Ok((PVal::I4(u32at(b, at + 4).ok_or("I4 beyond the stream")? as i32), 8)),
        16 => Ok((PVal::I1(*b.get(at + 4).ok_or("I1 beyond the stream")? as i8), 8)),
        30 => {
            let len = u32at(b, at + 4).ok_or("LPSTR length beyond the stream")? as usize;
            if len == 0 {
                // [MS-OLEPS] CodePageString: "If Size is zero, there is no Characters field" - the empty string
                return Ok((PVal::LpStr(Vec::new()), 8));
            }
            let bytes = b.get(at + 8..at + 8 + len).ok_or("LPSTR bytes beyond the stream")?;
            if bytes[len - 1] != 0 {
                return Err("LPSTR not NUL-terminated".into());
            }
            let padded = (8 + len + 3) & !3;
            Ok((PVal::LpStr(bytes[..len - 1].to_vec()), padded))
        }
        64 => Ok((PVal::FileTime(u64at(b, at + 4).ok_or("FILETIME beyond the stream")?), 12)),
        other => Err(format!("unsupported value type {}", other)),
    }
}

pub fn parse(b: &[u8]) -> ParsedPropSet {
    let mut p = ParsedPropSet { stream_len: b.len(), ..Default::default() };
    macro_rules! bail {
        ($($a:tt)*) => {{ p.problems.push(format!($($a)*)); return p; }};
    }
    if u16at(b, 0) != Some(0xfffe) {
        bail!("byte-order mark is not FFFE");
    }
    p.version = u16at(b, 2).unwrap_or(9);
    if p.version > 1 {
        p.problems.push(format!("format version {}", p.version));
    }
    p.os_version = u16at(b, 4).unwrap_or(0);
    p.os = u16at(b, 6).unwrap_or(9);
    if p.os > 2 {
        p.problems.push(format!("OS kind {}", p.os));
    }
    let nsec = match u32at(b, 24) {
        Some(n) => n,
        None => bail!("header truncated"),
    };
    if nsec < 1 {
        bail!("section count {}", nsec);
    }
    match b.get(28..44) {
        Some(f) => p.fmtid.copy_from_slice(f),
        None => bail!("section list truncated"),
    }
    p.section_offset = match u32at(b, 44) {
        Some(o) => o,
        None => bail!("section list truncated"),
    };
    let so = p.section_offset as usize;
    if so < 48 || so % 4 != 0 {
        p.problems.push(format!("section offset {} is not a 4-aligned offset past the header", so));
    }
    p.section_size = match u32at(b, so) {
        Some(s) => s,
        None => bail!("section header beyond the stream"),
    };
    let count = match u32at(b, so + 4) {
        Some(c) => c as usize,
        None => bail!("section header beyond the stream"),
    };
    if (p.section_size as usize) != b.len().saturating_sub(so) {
        p.problems.push(format!("section size {} != stream length {} - section offset {}", p.section_size, b.len(), so));
    }
    if count > 10_000 {
        bail!("absurd property count {}", count);
    }
    let table_end = 8 + 8 * count;
    let mut spans: Vec<(usize, usize, u32)> = Vec::new();
    for i in 0..count {
        let id = match u32at(b, so + 8 + 8 * i) {
            Some(x) => x,
            None => bail!("property table beyond the stream"),
        };
        let off = match u32at(b, so + 12 + 8 * i) {
            Some(x) => x,
            None => bail!("property table beyond the stream"),
        };
        if off % 4 != 0 {
            p.problems.push(format!("property {} offset {} is not 4-byte aligned", id, off));
        }
        if (off as usize) < table_end {
            p.problems.push(format!("property {} offset {} points into the id/offset table", id, off));
        }
        match value_at(b, so + off as usize) {
            Ok((v, size)) => {
                if off as usize + size > p.section_size as usize {
                    p.problems.push(format!("property {} value (offset {}, {} bytes) extends past the section size {}", id, off, size, p.section_size));
                }
                spans.push((off as usize, off as usize + size, id));
                if p.props.insert(id, (off, v)).is_some() {
                    p.problems.push(format!("property {} listed twice", id));
                }
            }
            Err(e) => p.problems.push(format!("property {} at offset {}: {}", id, off, e)),
        }
    }
    spans.sort();
    for w in spans.windows(2) {
        if w[0].1 > w[1].0 {
            p.problems.push(format!("values of properties {} and {} overlap", w[0].2, w[1].2));
        }
    }
    p
}

impl ParsedPropSet {
    pub fn codepage(&self) -> i32 {
        match self.props.get(&1) {
            Some((_, PVal::I2(x))) => {
                let id = *x as u16 as i32;
                if id == 0 {
                    65001
                } else {
                    id
                }
            }
            _ => 65001,
        }
    }
    pub fn string(&self, id: u32) -> Option<String> {
        match self.props.get(&id) {
            Some((_, PVal::LpStr(b))) => Some(cpora::decode(self.codepage(), b)),
            _ => None,
        }
    }
    pub fn int(&self, id: u32) -> Option<i32> {
        match self.props.get(&id) {
            Some((_, PVal::I4(x))) => Some(*x),
            _ => None,
        }
    }
    pub fn filetime(&self, id: u32) -> Option<u64> {
        match self.props.get(&id) {
            Some((_, PVal::FileTime(x))) => Some(*x),
            _ => None,
        }
    }
}

#[derive(Clone, Debug, Default)]
pub struct PsEncOptions {
    /// order in which values are laid out (indices into props); empty = as given
    pub layout_order: Vec<usize>,
    /// order of the id/offset table; empty = as given
    pub table_order: Vec<usize>,
    /// 4-byte words of padding inserted before each value
    pub gap_words: usize,
    /// 4-byte words of trailing padding inside the section
    pub trailing_words: usize,
    pub version: u16,
    /// extra bytes between header and section (multiple of 4)
    pub section_gap: usize,
    /// empty strings are written with size 0 and no characters (instead of size 1 and a terminator)
    pub empty_strings_size0: bool,
}

fn value_bytes(v: &PVal, size0: bool) -> Vec<u8> {
    let mut o = Vec::new();
    match v {
        PVal::LpStr(b) if b.is_empty() && size0 => {
            o.extend_from_slice(&30u32.to_le_bytes());
            o.extend_from_slice(&0u32.to_le_bytes());
        }
        PVal::Empty => o.extend_from_slice(&0u32.to_le_bytes()),
        PVal::Null => o.extend_from_slice(&1u32.to_le_bytes()),
        PVal::I1(x) => {
            o.extend_from_slice(&16u32.to_le_bytes());
            o.push(*x as u8);
            o.extend_from_slice(&[0, 0, 0]);
        }
        PVal::I2(x) => {
            o.extend_from_slice(&2u32.to_le_bytes());
            o.extend_from_slice(&x.to_le_bytes());
            o.extend_from_slice(&[0, 0]);
        }
        PVal::I4(x) => {
            o.extend_from_slice(&3u32.to_le_bytes());
            o.extend_from_slice(&x.to_le_bytes());
        }
        PVal::LpStr(b) => {
            o.extend_from_slice(&30u32.to_le_bytes());
            o.extend_from_slice(&((b.len() + 1) as u32).to_le_bytes());
            o.extend_from_slice(b);
            o.push(0);
            while o.len() % 4 != 0 {
                o.push(0);
            }
        }
        PVal::FileTime(t) => {
            o.extend_from_slice(&64u32.to_le_bytes());
            o.extend_from_slice(&t.to_le_bytes());
        }
    }
    o
}

pub fn encode(props: &[(u32, PVal)], opts: &PsEncOptions) -> Vec<u8> {
    let n = props.len();
    let layout: Vec<usize> = if opts.layout_order.len() == n { opts.layout_order.clone() } else { (0..n).collect() };
    let table: Vec<usize> = if opts.table_order.len() == n { opts.table_order.clone() } else { (0..n).collect() };
    let mut body = Vec::new();
    let mut offsets = vec![0u32; n];
    let base = 8 + 8 * n;
    for &i in &layout {
        body.extend(std::iter::repeat(0u8).take(4 * opts.gap_words));
        offsets[i] = (base + body.len()) as u32;
        body.extend(value_bytes(&props[i].1, opts.empty_strings_size0));
    }
    body.extend(std::iter::repeat(0u8).take(4 * opts.trailing_words));
    let section_size = (base + body.len()) as u32;
    let mut out = Vec::new();
    out.extend_from_slice(&0xfffeu16.to_le_bytes());
    out.extend_from_slice(&opts.version.to_le_bytes());
    out.extend_from_slice(&10u16.to_le_bytes());
    out.extend_from_slice(&2u16.to_le_bytes());
    out.extend_from_slice(&[0u8; 16]);
    out.extend_from_slice(&1u32.to_le_bytes());
    out.extend_from_slice(&FMTID_SUMMARY);
    let so = 48 + opts.section_gap;
    out.extend_from_slice(&(so as u32).to_le_bytes());
    out.extend(std::iter::repeat(0u8).take(opts.section_gap));
    out.extend_from_slice(&section_size.to_le_bytes());
    out.extend_from_slice(&(n as u32).to_le_bytes());
    for &i in &table {
        out.extend_from_slice(&props[i].0.to_le_bytes());
        out.extend_from_slice(&offsets[i].to_le_bytes());
    }
    out.extend(body);
    out
}
