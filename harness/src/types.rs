//! The harness's own value / schema vocabulary (independent of the library's
//! types), with conversions to and from the public API at the boundary.

use serde_json::{json, Value as J};

#[derive(Clone, Debug, PartialEq, Eq, Hash, PartialOrd, Ord)]
pub enum V {
    Null,
    Int(i32),
    Str(String),
}

impl V {
    pub fn s(x: &str) -> V {
        V::Str(x.to_string())
    }
    /// The identification the properties make: "" and null are one value.
    pub fn norm(&self) -> V {
        match self {
            V::Str(s) if s.is_empty() => V::Null,
            v => v.clone(),
        }
    }
    pub fn to_msi(&self) -> msi::Value {
        match self {
            V::Null => msi::Value::Null,
            V::Int(i) => msi::Value::Int(*i),
            V::Str(s) => msi::Value::Str(s.clone()),
        }
    }
    pub fn from_msi(v: &msi::Value) -> V {
        match v {
            msi::Value::Null => V::Null,
            msi::Value::Int(i) => V::Int(*i),
            msi::Value::Str(s) => V::Str(s.clone()),
        }
    }
    pub fn to_json(&self) -> J {
        match self {
            V::Null => J::Null,
            V::Int(i) => json!(i),
            V::Str(s) => {
                if s.len() > 120 {
                    let mut cut = 60;
                    while !s.is_char_boundary(cut) {
                        cut -= 1;
                    }
                    json!(format!("{}…(len {})", &s[..cut], s.len()))
                } else {
                    json!(s)
                }
            }
        }
    }
    pub fn is_null(&self) -> bool {
        matches!(self, V::Null)
    }
    pub fn truthy(&self) -> bool {
        match self {
            V::Null => false,
            V::Int(i) => *i != 0,
            V::Str(s) => !s.is_empty(),
        }
    }
    pub fn class(&self) -> &'static str {
        match self {
            V::Null => "null",
            V::Int(0) => "0",
            V::Int(i) if *i == i32::MAX || *i == -i32::MAX => "i32lim",
            V::Int(i) if *i == 32767 || *i == -32767 => "i16lim",
            V::Int(i) if *i < 0 => "neg",
            V::Int(_) => "pos",
            V::Str(s) if s.is_empty() => "empty",
            V::Str(s) if s.len() > 65535 => "huge",
            V::Str(s) if !s.is_ascii() => "nonascii",
            V::Str(_) => "str",
        }
    }
}

#[derive(Clone, Copy, Debug, PartialEq, Eq, Hash, PartialOrd, Ord)]
pub enum CT {
    Int16,
    Int32,
    Str(usize),
}

impl CT {
    pub fn from_msi(t: msi::ColumnType) -> CT {
        match t {
            msi::ColumnType::Int16 => CT::Int16,
            msi::ColumnType::Int32 => CT::Int32,
            msi::ColumnType::Str(w) => CT::Str(w),
        }
    }
    pub fn is_str(&self) -> bool {
        matches!(self, CT::Str(_))
    }
}

pub const CATEGORIES: [(&str, msi::Category); 26] = [
    ("Text", msi::Category::Text),
    ("UpperCase", msi::Category::UpperCase),
    ("LowerCase", msi::Category::LowerCase),
    ("Integer", msi::Category::Integer),
    ("DoubleInteger", msi::Category::DoubleInteger),
    ("TimeDate", msi::Category::TimeDate),
    ("Identifier", msi::Category::Identifier),
    ("Property", msi::Category::Property),
    ("Filename", msi::Category::Filename),
    ("WildCardFilename", msi::Category::WildCardFilename),
    ("Path", msi::Category::Path),
    ("Paths", msi::Category::Paths),
    ("AnyPath", msi::Category::AnyPath),
    ("DefaultDir", msi::Category::DefaultDir),
    ("RegPath", msi::Category::RegPath),
    ("Formatted", msi::Category::Formatted),
    ("FormattedSDDLText", msi::Category::FormattedSddlText),
    ("Template", msi::Category::Template),
    ("Condition", msi::Category::Condition),
    ("GUID", msi::Category::Guid),
    ("Version", msi::Category::Version),
    ("Language", msi::Category::Language),
    ("Binary", msi::Category::Binary),
    ("CustomSource", msi::Category::CustomSource),
    ("Cabinet", msi::Category::Cabinet),
    ("Shortcut", msi::Category::Shortcut),
];

pub fn cat_to_msi(name: &str) -> msi::Category {
    CATEGORIES.iter().find(|(n, _)| *n == name).map(|(_, c)| *c).expect("known category name")
}

pub fn cat_name(c: msi::Category) -> &'static str {
    CATEGORIES.iter().find(|(_, x)| *x == c).map(|(n, _)| *n).expect("category in table")
}

/// A column definition in harness vocabulary.
#[derive(Clone, Debug, PartialEq, Eq, Hash)]
pub struct ColDef {
    pub name: String,
    pub ty: CT,
    pub nullable: bool,
    pub key: bool,
    pub localizable: bool,
    pub range: Option<(i32, i32)>,
    pub fk: Option<(String, i32)>,
    pub category: Option<&'static str>,
    pub enums: Vec<String>,
}

impl ColDef {
    pub fn new(name: &str, ty: CT) -> ColDef {
        ColDef {
            name: name.to_string(),
            ty,
            nullable: false,
            key: false,
            localizable: false,
            range: None,
            fk: None,
            category: None,
            enums: Vec::new(),
        }
    }
    pub fn key(mut self) -> ColDef {
        self.key = true;
        self
    }
    pub fn nullable(mut self) -> ColDef {
        self.nullable = true;
        self
    }
    pub fn localizable(mut self) -> ColDef {
        self.localizable = true;
        self
    }
    pub fn range(mut self, a: i32, b: i32) -> ColDef {
        self.range = Some((a, b));
        self
    }
    pub fn cat(mut self, c: &'static str) -> ColDef {
        self.category = Some(c);
        self
    }
    pub fn enums(mut self, e: &[&str]) -> ColDef {
        self.enums = e.iter().map(|s| s.to_string()).collect();
        self
    }
    pub fn fk(mut self, t: &str, i: i32) -> ColDef {
        self.fk = Some((t.to_string(), i));
        self
    }

    pub fn to_msi(&self) -> msi::Column {
        let mut b = msi::Column::build(self.name.as_str());
        if self.nullable {
            b = b.nullable();
        }
        if self.key {
            b = b.primary_key();
        }
        if self.localizable {
            b = b.localizable();
        }
        if let Some((a, z)) = self.range {
            b = b.range(a, z);
        }
        if let Some((t, i)) = &self.fk {
            b = b.foreign_key(t, *i);
        }
        if let Some(c) = self.category {
            b = b.category(cat_to_msi(c));
        }
        if !self.enums.is_empty() {
            let e: Vec<&str> = self.enums.iter().map(|s| s.as_str()).collect();
            b = b.enum_values(&e);
        }
        match self.ty {
            CT::Int16 => b.int16(),
            CT::Int32 => b.int32(),
            CT::Str(w) => b.string(w),
        }
    }

    /// What the public getters of a `msi::Column` expose (the foreign key is
    /// not public; it is observed through `_Validation`).
    pub fn from_msi(c: &msi::Column) -> ColDef {
        ColDef {
            name: c.name().to_string(),
            ty: CT::from_msi(c.coltype()),
            nullable: c.is_nullable(),
            key: c.is_primary_key(),
            localizable: c.is_localizable(),
            range: c.value_range(),
            fk: None,
            category: c.category().map(cat_name),
            enums: c.enum_values().map(|e| e.to_vec()).unwrap_or_default(),
        }
    }

    pub fn to_json(&self) -> J {
        json!({
            "name": self.name,
            "type": match self.ty { CT::Int16 => "i16".to_string(), CT::Int32 => "i32".to_string(), CT::Str(w) => format!("str({})", w) },
            "nullable": self.nullable, "key": self.key, "localizable": self.localizable,
            "range": self.range.map(|(a, b)| vec![a, b]),
            "fk": self.fk.as_ref().map(|(t, i)| json!([t, i])),
            "category": self.category,
            "enums": self.enums,
        })
    }

    /// Equality on what the public getters expose.
    pub fn same_public(&self, other: &ColDef) -> bool {
        self.name == other.name
            && self.ty == other.ty
            && self.nullable == other.nullable
            && self.key == other.key
            && self.localizable == other.localizable
            && self.range == other.range
            && self.category == other.category
            && self.enums == other.enums
    }
}

pub fn row_json(row: &[V]) -> J {
    J::Array(row.iter().map(|v| v.to_json()).collect())
}
