//! Plain in-memory reference database written from the crate's documentation:
//! tables as key-ordered row lists, streams as a map, a summary record, code
//! pages, package type.  Also the operation vocabulary and its execution on
//! a real `msi::Package`.

use crate::exprmodel::{self, Adm, Env, MExpr};
use crate::observe::{Obs, SummaryObs, TableObs};
use crate::types::{row_json, ColDef, V};
use serde_json::{json, Value as J};
use std::cmp::Ordering;
use std::collections::BTreeMap;
use std::io::{self, Read, Seek, Write};
use std::time::{Duration, SystemTime, UNIX_EPOCH};

#[derive(Clone, Debug, PartialEq, Eq)]
pub enum SumOp {
    SetTitle(String),
    ClearTitle,
    SetSubject(String),
    ClearSubject,
    SetAuthor(String),
    ClearAuthor,
    SetComments(String),
    ClearComments,
    SetCreatingApp(String),
    ClearCreatingApp,
    SetUuid(String),
    ClearUuid,
    SetWordCount(i32),
    ClearWordCount,
    /// nanoseconds relative to the Unix epoch
    SetCreationTime(i128),
    ClearCreationTime,
    SetArch(String),
    ClearArch,
    SetLanguages(Vec<u16>),
    ClearLanguages,
    SetCodepage(i32),
}

#[derive(Clone, Debug, PartialEq, Eq)]
pub enum Op {
    CreateTable { name: String, cols: Vec<ColDef> },
    DropTable { name: String },
    Insert { table: String, rows: Vec<Vec<V>> },
    Update { table: String, sets: Vec<(String, V)>, cond: Option<MExpr> },
    Delete { table: String, cond: Option<MExpr> },
    WriteStream { name: String, data: Vec<u8> },
    RemoveStream { name: String },
    Summary(SumOp),
    SetDbCodepage(i32),
}

impl Op {
    pub fn kind(&self) -> &'static str {
        match self {
            Op::CreateTable { .. } => "create_table",
            Op::DropTable { .. } => "drop_table",
            Op::Insert { rows, .. } => {
                if rows.len() == 1 {
                    "insert1"
                } else {
                    "insertN"
                }
            }
            Op::Update { cond, .. } => {
                if cond.is_some() {
                    "update_where"
                } else {
                    "update_all"
                }
            }
            Op::Delete { cond, .. } => {
                if cond.is_some() {
                    "delete_where"
                } else {
                    "delete_all"
                }
            }
            Op::WriteStream { .. } => "write_stream",
            Op::RemoveStream { .. } => "remove_stream",
            Op::Summary(SumOp::SetCodepage(_)) => "summary_codepage",
            Op::Summary(_) => "summary",
            Op::SetDbCodepage(_) => "db_codepage",
        }
    }

    pub fn to_json(&self) -> J {
        match self {
            Op::CreateTable { name, cols } => {
                json!({"op": "create_table", "name": name, "cols": cols.iter().map(|c| c.to_json()).collect::<Vec<_>>()})
            }
            Op::DropTable { name } => json!({"op": "drop_table", "name": name}),
            Op::Insert { table, rows } => {
                json!({"op": "insert", "table": table, "rows": rows.iter().take(8).map(|r| row_json(r)).collect::<Vec<_>>(), "n_rows": rows.len()})
            }
            Op::Update { table, sets, cond } => json!({
                "op": "update", "table": table,
                "set": sets.iter().map(|(c, v)| json!([c, v.to_json()])).collect::<Vec<_>>(),
                "where": cond.as_ref().map(exprmodel::show),
            }),
            Op::Delete { table, cond } => json!({"op": "delete", "table": table, "where": cond.as_ref().map(exprmodel::show)}),
            Op::WriteStream { name, data } => json!({"op": "write_stream", "name": name, "len": data.len()}),
            Op::RemoveStream { name } => json!({"op": "remove_stream", "name": name}),
            Op::Summary(s) => json!({"op": "summary", "what": format!("{:?}", s).chars().take(160).collect::<String>()}),
            Op::SetDbCodepage(id) => json!({"op": "set_database_codepage", "id": id}),
        }
    }
}

pub fn ns_to_time(ns: i128) -> SystemTime {
    if ns >= 0 {
        UNIX_EPOCH + Duration::new((ns / 1_000_000_000) as u64, (ns % 1_000_000_000) as u32)
    } else {
        let n = -ns;
        UNIX_EPOCH - Duration::new((n / 1_000_000_000) as u64, (n % 1_000_000_000) as u32)
    }
}

pub fn apply_sumop(s: &mut msi::SummaryInfo, op: &SumOp) {
    match op {
        SumOp::SetTitle(x) => s.set_title(x.clone()),
        SumOp::ClearTitle => s.clear_title(),
        SumOp::SetSubject(x) => s.set_subject(x.clone()),
        SumOp::ClearSubject => s.clear_subject(),
        SumOp::SetAuthor(x) => s.set_author(x.clone()),
        SumOp::ClearAuthor => s.clear_author(),
        SumOp::SetComments(x) => s.set_comments(x.clone()),
        SumOp::ClearComments => s.clear_comments(),
        SumOp::SetCreatingApp(x) => s.set_creating_application(x.clone()),
        SumOp::ClearCreatingApp => s.clear_creating_application(),
        SumOp::SetUuid(u) => s.set_uuid(uuid::Uuid::parse_str(u).expect("generator emits valid uuids")),
        SumOp::ClearUuid => s.clear_uuid(),
        SumOp::SetWordCount(w) => s.set_word_count(*w),
        SumOp::ClearWordCount => s.clear_word_count(),
        SumOp::SetCreationTime(ns) => s.set_creation_time(ns_to_time(*ns)),
        SumOp::ClearCreationTime => s.clear_creation_time(),
        SumOp::SetArch(a) => s.set_arch(a.clone()),
        SumOp::ClearArch => s.clear_arch(),
        SumOp::SetLanguages(l) => {
            let langs: Vec<msi::Language> = l.iter().map(|c| msi::Language::from_code(*c)).collect();
            s.set_languages(&langs)
        }
        SumOp::ClearLanguages => s.clear_languages(),
        SumOp::SetCodepage(id) => s.set_codepage(msi::CodePage::from_id(*id).expect("generator emits supported ids")),
    }
}

/// `a AND b` at the top of a condition is given to the library as `.with(a).with(b)` for every
/// second shape (decided by the text, so it is reproducible): both spellings mean the same.
pub fn split_and(cond: &Option<MExpr>) -> Option<(&MExpr, &MExpr)> {
    match cond {
        Some(MExpr::And(a, b)) if exprmodel::show(a).len() % 2 == 0 => Some((a, b)),
        _ => None,
    }
}

/// Executes one operation on the real package.
pub fn exec_op<F: Read + Write + Seek>(pkg: &mut msi::Package<F>, op: &Op) -> io::Result<()> {
    match op {
        Op::CreateTable { name, cols } => pkg.create_table(name.clone(), cols.iter().map(|c| c.to_msi()).collect()),
        Op::DropTable { name } => pkg.drop_table(name),
        Op::Insert { table, rows } => {
            let q = msi::Insert::into(table.clone())
                .rows(rows.iter().map(|r| r.iter().map(|v| v.to_msi()).collect()).collect());
            pkg.insert_rows(q)
        }
        Op::Update { table, sets, cond } => {
            let mut q = msi::Update::table(table.clone());
            for (c, v) in sets {
                q = q.set(c.clone(), v.to_msi());
            }
            match split_and(cond) {
                Some((a, b)) => q = q.with(exprmodel::lower(a)).with(exprmodel::lower(b)),
                None => {
                    if let Some(e) = cond {
                        q = q.with(exprmodel::lower(e));
                    }
                }
            }
            pkg.update_rows(q)
        }
        Op::Delete { table, cond } => {
            let mut q = msi::Delete::from(table.clone());
            match split_and(cond) {
                Some((a, b)) => q = q.with(exprmodel::lower(a)).with(exprmodel::lower(b)),
                None => {
                    if let Some(e) = cond {
                        q = q.with(exprmodel::lower(e));
                    }
                }
            }
            pkg.delete_rows(q)
        }
        Op::WriteStream { name, data } => {
            let mut w = pkg.write_stream(name)?;
            w.write_all(data)?;
            w.flush()?;
            Ok(())
        }
        Op::RemoveStream { name } => pkg.remove_stream(name),
        Op::Summary(s) => {
            apply_sumop(pkg.summary_info_mut(), s);
            Ok(())
        }
        Op::SetDbCodepage(id) => {
            pkg.set_database_codepage(msi::CodePage::from_id(*id).expect("supported id"));
            Ok(())
        }
    }
}

#[derive(Clone, Debug, PartialEq, Eq)]
pub struct MTable {
    pub cols: Vec<ColDef>,
    /// rows in canonical key order
    pub rows: Vec<Vec<V>>,
}

impl MTable {
    pub fn key_idx(&self) -> Vec<usize> {
        self.cols.iter().enumerate().filter(|(_, c)| c.key).map(|(i, _)| i).collect()
    }
    pub fn key_of(&self, row: &[V]) -> Vec<V> {
        self.key_idx().iter().map(|&i| row[i].norm()).collect()
    }
    pub fn col_index(&self, name: &str) -> Option<usize> {
        self.cols.iter().position(|c| c.name == name)
    }
    fn sort(&mut self) {
        let k = self.key_idx();
        self.rows.sort_by(|a, b| {
            let ka: Vec<V> = k.iter().map(|&i| a[i].norm()).collect();
            let kb: Vec<V> = k.iter().map(|&i| b[i].norm()).collect();
            ka.cmp(&kb)
        });
    }
}

/// Ordering the documentation fixes: integers numerically, strings by scalar
/// value, key columns left to right; a null against a non-null component is
/// not constrained (None).
pub fn key_cmp(a: &[V], b: &[V]) -> Option<Ordering> {
    for (x, y) in a.iter().zip(b.iter()) {
        match (x.norm(), y.norm()) {
            (V::Null, V::Null) => continue,
            (V::Int(p), V::Int(q)) => {
                if p != q {
                    return Some(p.cmp(&q));
                }
            }
            (V::Str(p), V::Str(q)) => {
                if p != q {
                    return Some(p.cmp(&q));
                }
            }
            _ => return None,
        }
    }
    Some(Ordering::Equal)
}

#[derive(Clone, Debug, PartialEq, Eq)]
pub enum Reject {
    UnknownTable,
    TableExists,
    UnknownColumn(String),
    Arity,
    DuplicateKey,
    NoSuchStream,
    /// the condition's truth value is not determined by the documentation on some row
    Ambiguous,
}

struct RowEnv<'a> {
    cols: &'a [ColDef],
    row: &'a [V],
}

impl<'a> Env for RowEnv<'a> {
    fn get(&self, name: &str) -> Option<Adm> {
        let i = self.cols.iter().position(|c| c.name == name)?;
        Some(exprmodel::cell_adm(&self.row[i]))
    }
}

/// Truth of a condition on a row: Ok(bool) or Err(Ambiguous / UnknownColumn).
pub fn cond_truth(cols: &[ColDef], row: &[V], cond: &Option<MExpr>) -> Result<bool, Reject> {
    match cond {
        None => Ok(true),
        Some(e) => {
            let env = RowEnv { cols, row };
            match exprmodel::eval(e, &env) {
                None => Err(Reject::Ambiguous),
                Some(adm) => adm.truth().ok_or(Reject::Ambiguous),
            }
        }
    }
}

#[derive(Clone, Debug, PartialEq, Eq)]
pub struct Model {
    pub ptype: &'static str,
    pub db_codepage: i32,
    pub tables: BTreeMap<String, MTable>,
    pub streams: BTreeMap<String, Vec<u8>>,
    pub summary: SummaryObs,
}

pub fn is_catalog(name: &str) -> bool {
    name == "_Tables" || name == "_Columns" || name == "_Validation"
}

impl Model {
    /// Model of a package fresh from `Package::create(ptype)`.
    pub fn created(ptype: &'static str) -> Model {
        let title = match ptype {
            "Installer" => "Installation Database",
            "Patch" => "Patch",
            _ => "Transform",
        };
        Model {
            ptype,
            db_codepage: 65001,
            tables: BTreeMap::new(),
            streams: BTreeMap::new(),
            summary: SummaryObs { codepage: 65001, title: Some(title.to_string()), ..Default::default() },
        }
    }

    /// Model initialised from an observation (user tables only).
    pub fn from_obs(o: &Obs) -> Model {
        let mut tables = BTreeMap::new();
        for (n, t) in &o.tables {
            if !is_catalog(n) {
                let mut mt = MTable { cols: t.cols.clone(), rows: t.rows.clone() };
                mt.sort();
                tables.insert(n.clone(), mt);
            }
        }
        Model {
            ptype: o.ptype,
            db_codepage: o.db_codepage,
            tables,
            streams: o.streams.clone(),
            summary: o.summary.clone(),
        }
    }

    fn check_cond_cols(t: &MTable, cond: &Option<MExpr>) -> Result<(), Reject> {
        if let Some(e) = cond {
            let mut cs = std::collections::BTreeSet::new();
            exprmodel::columns_of(e, &mut cs);
            for c in cs {
                if t.col_index(&c).is_none() {
                    return Err(Reject::UnknownColumn(c));
                }
            }
        }
        Ok(())
    }

    /// Applies the operation to the model if the relational rules admit it.
    /// Value validity and name validity are *not* judged here (C07 / C06 /
    /// C11 do that); the caller applies an op only after the library accepted
    /// it, and a structural `Reject` against a library `Ok` is a violation.
    pub fn apply(&mut self, op: &Op) -> Result<(), Reject> {
        match op {
            Op::CreateTable { name, cols } => {
                if self.tables.contains_key(name) || is_catalog(name) {
                    return Err(Reject::TableExists);
                }
                self.tables.insert(name.clone(), MTable { cols: cols.clone(), rows: Vec::new() });
                Ok(())
            }
            Op::DropTable { name } => {
                if self.tables.remove(name).is_none() {
                    return Err(Reject::UnknownTable);
                }
                Ok(())
            }
            Op::Insert { table, rows } => {
                let t = self.tables.get_mut(table).ok_or(Reject::UnknownTable)?;
                let mut keys: std::collections::BTreeSet<Vec<V>> = t.rows.iter().map(|r| t.key_of(r)).collect();
                for r in rows {
                    if r.len() != t.cols.len() {
                        return Err(Reject::Arity);
                    }
                    if !keys.insert(t.key_of(r)) {
                        return Err(Reject::DuplicateKey);
                    }
                }
                t.rows.extend(rows.iter().cloned());
                t.sort();
                Ok(())
            }
            Op::Update { table, sets, cond } => {
                let t = self.tables.get_mut(table).ok_or(Reject::UnknownTable)?;
                let mut idx = Vec::new();
                for (c, _) in sets {
                    idx.push(t.col_index(c).ok_or_else(|| Reject::UnknownColumn(c.clone()))?);
                }
                Model::check_cond_cols(t, cond)?;
                let mut new_rows = t.rows.clone();
                for r in new_rows.iter_mut() {
                    if cond_truth(&t.cols, r, cond)? {
                        for (k, (_, v)) in sets.iter().enumerate() {
                            r[idx[k]] = v.clone();
                        }
                    }
                }
                let mut keys = std::collections::BTreeSet::new();
                for r in &new_rows {
                    if !keys.insert(t.key_of(r)) {
                        return Err(Reject::DuplicateKey);
                    }
                }
                t.rows = new_rows;
                t.sort();
                Ok(())
            }
            Op::Delete { table, cond } => {
                let t = self.tables.get_mut(table).ok_or(Reject::UnknownTable)?;
                Model::check_cond_cols(t, cond)?;
                let mut keep = Vec::new();
                for r in &t.rows {
                    if !cond_truth(&t.cols, r, cond)? {
                        keep.push(r.clone());
                    }
                }
                t.rows = keep;
                Ok(())
            }
            Op::WriteStream { name, data } => {
                self.streams.insert(name.clone(), data.clone());
                Ok(())
            }
            Op::RemoveStream { name } => {
                if self.streams.remove(name).is_none() {
                    return Err(Reject::NoSuchStream);
                }
                Ok(())
            }
            Op::Summary(s) => {
                let m = &mut self.summary;
                match s {
                    SumOp::SetTitle(x) => m.title = Some(x.clone()),
                    SumOp::ClearTitle => m.title = None,
                    SumOp::SetSubject(x) => m.subject = Some(x.clone()),
                    SumOp::ClearSubject => m.subject = None,
                    SumOp::SetAuthor(x) => m.author = Some(x.clone()),
                    SumOp::ClearAuthor => m.author = None,
                    SumOp::SetComments(x) => m.comments = Some(x.clone()),
                    SumOp::ClearComments => m.comments = None,
                    SumOp::SetCreatingApp(x) => m.creating_app = Some(x.clone()),
                    SumOp::ClearCreatingApp => m.creating_app = None,
                    SumOp::SetUuid(u) => m.uuid = Some(u.to_lowercase()),
                    SumOp::ClearUuid => m.uuid = None,
                    SumOp::SetWordCount(w) => m.word_count = Some(*w),
                    SumOp::ClearWordCount => m.word_count = None,
                    SumOp::SetCreationTime(ns) => m.creation_time = Some(ns.div_euclid(100) * 100),
                    SumOp::ClearCreationTime => m.creation_time = None,
                    SumOp::SetArch(a) => m.arch = if a.is_empty() { None } else { Some(a.clone()) },
                    SumOp::ClearArch => m.arch = None,
                    SumOp::SetLanguages(l) => m.languages = l.clone(),
                    SumOp::ClearLanguages => m.languages.clear(),
                    SumOp::SetCodepage(id) => m.codepage = *id,
                }
                Ok(())
            }
            Op::SetDbCodepage(id) => {
                self.db_codepage = *id;
                Ok(())
            }
        }
    }

    /// Compares the user-visible part of an observation with the model.
    /// Row *sets* must be equal (modulo "" ≍ null); the yielded order must be
    /// ascending under `key_cmp` wherever that order is defined.
    pub fn diff_obs(&self, o: &Obs) -> Option<String> {
        if o.ptype != self.ptype {
            return Some(format!("package type: model {} vs observed {}", self.ptype, o.ptype));
        }
        if o.db_codepage != self.db_codepage {
            return Some(format!("database code page: model {} vs observed {}", self.db_codepage, o.db_codepage));
        }
        let user: Vec<&String> = o.tables.keys().filter(|n| !is_catalog(n)).collect();
        let mine: Vec<&String> = self.tables.keys().collect();
        if user != mine {
            return Some(format!("user tables: model {:?} vs observed {:?}", mine, user));
        }
        for (n, mt) in &self.tables {
            let ot = &o.tables[n];
            if let Some(d) = diff_table(n, mt, ot) {
                return Some(d);
            }
        }
        let sn: Vec<&String> = self.streams.keys().collect();
        let on: Vec<&String> = o.stream_names.iter().collect();
        if sn != on {
            return Some(format!("stream list: model {:?} vs observed {:?}", sn, on));
        }
        for (n, d) in &self.streams {
            if o.streams.get(n) != Some(d) {
                return Some(format!(
                    "stream {:?}: model {} bytes vs observed {} bytes (or different content)",
                    n,
                    d.len(),
                    o.streams.get(n).map(|x| x.len()).unwrap_or(0)
                ));
            }
        }
        if let Some(d) = diff_summary(&self.summary, &o.summary) {
            return Some(d);
        }
        None
    }
}

pub fn diff_summary(m: &SummaryObs, o: &SummaryObs) -> Option<String> {
    if m != o {
        return Some(format!("summary: model {:?} vs observed {:?}", m, o));
    }
    None
}

pub fn diff_table(name: &str, mt: &MTable, ot: &TableObs) -> Option<String> {
    if mt.cols.len() != ot.cols.len() {
        return Some(format!("table {:?}: model {} columns vs observed {}", name, mt.cols.len(), ot.cols.len()));
    }
    if mt.rows.len() != ot.rows.len() {
        return Some(format!("table {:?}: model {} rows vs observed {}", name, mt.rows.len(), ot.rows.len()));
    }
    let mut a: Vec<Vec<V>> = mt.rows.iter().map(|r| r.iter().map(|v| v.norm()).collect()).collect();
    let mut b: Vec<Vec<V>> = ot.rows.iter().map(|r| r.iter().map(|v| v.norm()).collect()).collect();
    // order check on the observed sequence
    let k = mt.key_idx();
    for w in b.windows(2) {
        let ka: Vec<V> = k.iter().map(|&i| w[0][i].clone()).collect();
        let kb: Vec<V> = k.iter().map(|&i| w[1][i].clone()).collect();
        match key_cmp(&ka, &kb) {
            Some(Ordering::Less) | None => {}
            Some(Ordering::Equal) => {
                return Some(format!("table {:?}: two rows with the same primary key {}", name, row_json(&ka)))
            }
            Some(Ordering::Greater) => {
                return Some(format!(
                    "table {:?}: rows not in ascending key order ({} before {})",
                    name,
                    row_json(&ka),
                    row_json(&kb)
                ))
            }
        }
    }
    a.sort();
    b.sort();
    for (x, y) in a.iter().zip(b.iter()) {
        if x != y {
            return Some(format!("table {:?}: row sets differ: model has {} where observed has {}", name, row_json(x), row_json(y)));
        }
    }
    None
}
