//! Code-page oracle: Windows code-page id -> WHATWG label -> encoding_rs
//! table, resolved with `Encoding::for_label`, i.e. through a table that is
//! independent of `codepage.rs::encoding()`.

use encoding_rs::{EncoderResult, Encoding};

pub const PAGES: [(i32, &str); 26] = [
    (932, "shift_jis"),
    (936, "gbk"),
    (949, "euc-kr"),
    (950, "big5"),
    (951, "big5"),
    (1250, "windows-1250"),
    (1251, "windows-1251"),
    (1252, "windows-1252"),
    (1253, "windows-1253"),
    (1254, "windows-1254"),
    (1255, "windows-1255"),
    (1256, "windows-1256"),
    (1257, "windows-1257"),
    (1258, "windows-1258"),
    (10000, "macintosh"),
    (10007, "x-mac-cyrillic"),
    (20127, "us-ascii-7bit"),
    (28591, "iso-8859-1"),
    (28592, "iso-8859-2"),
    (28593, "iso-8859-3"),
    (28594, "iso-8859-4"),
    (28595, "iso-8859-5"),
    (28596, "iso-8859-6"),
    (28597, "iso-8859-7"),
    (28598, "iso-8859-8"),
    (65001, "utf-8"),
];

pub fn all_ids() -> Vec<i32> {
    PAGES.iter().map(|p| p.0).collect()
}

pub fn label(id: i32) -> Option<&'static str> {
    let id = if id == 0 { 65001 } else { id };
    PAGES.iter().find(|p| p.0 == id).map(|p| p.1)
}

fn enc(id: i32) -> Option<&'static Encoding> {
    let l = label(id)?;
    if l == "us-ascii-7bit" {
        return None;
    }
    Encoding::for_label(l.as_bytes())
}

pub fn msi_page(id: i32) -> Option<msi::CodePage> {
    msi::CodePage::from_id(id)
}

/// Oracle encoding of one scalar: Some(bytes) or None if unmappable.
pub fn encode_char(id: i32, c: char) -> Option<Vec<u8>> {
    if label(id) == Some("us-ascii-7bit") {
        return if c.is_ascii() { Some(vec![c as u8]) } else { None };
    }
    let e = enc(id)?;
    let mut encoder = e.new_encoder();
    let mut buf = [0u8; 16];
    let mut s = [0u8; 4];
    let st = c.encode_utf8(&mut s);
    let (res, _read, written) = encoder.encode_from_utf8_without_replacement(st, &mut buf, true);
    match res {
        EncoderResult::InputEmpty => Some(buf[..written].to_vec()),
        _ => None,
    }
}

/// Oracle encoding of a string with '?' substitution, char by char.
pub fn encode(id: i32, s: &str) -> Vec<u8> {
    let mut out = Vec::new();
    for c in s.chars() {
        match encode_char(id, c) {
            Some(b) => out.extend(b),
            None => out.push(b'?'),
        }
    }
    out
}

pub fn decode(id: i32, bytes: &[u8]) -> String {
    if label(id) == Some("us-ascii-7bit") {
        return bytes.iter().map(|&b| if b.is_ascii() { b as char } else { '\u{FFFD}' }).collect();
    }
    match enc(id) {
        Some(e) => e.decode_without_bom_handling(bytes).0.into_owned(),
        None => String::new(),
    }
}

/// A scalar is *representable* in a page when the oracle encodes it and the
/// oracle decodes those bytes back to it.
pub fn representable_char(id: i32, c: char) -> bool {
    match encode_char(id, c) {
        Some(b) => {
            let d = decode(id, &b);
            let mut it = d.chars();
            it.next() == Some(c) && it.next().is_none()
        }
        None => false,
    }
}

pub fn representable(id: i32, s: &str) -> bool {
    if s.is_ascii() {
        // every supported page maps U+0000..U+007F to the same single bytes and back
        return true;
    }
    let b = encode_charwise_strict(id, s);
    match b {
        Some(bytes) => decode(id, &bytes) == s,
        None => false,
    }
}

fn encode_charwise_strict(id: i32, s: &str) -> Option<Vec<u8>> {
    let mut out = Vec::new();
    for c in s.chars() {
        out.extend(encode_char(id, c)?);
    }
    Some(out)
}

/// A small repertoire of non-ASCII scalars representable in the page
/// (computed with the oracle), used by generators.
/// Every character below U+3000 that the page can represent (all of a single-byte page's upper half), plus a
/// sample of the CJK / Hangul blocks: what a directed "whole repertoire" scenario stores.
pub fn wide_repertoire(id: i32, max: usize) -> Vec<char> {
    let mut out = Vec::new();
    let ranges: [std::ops::RangeInclusive<u32>; 5] = [0x80..=0x2FFF, 0x3000..=0x30FF, 0x4E00..=0x4E7F, 0xAC00..=0xAC3F, 0xF8FF..=0xFFEF];
    for r in ranges.iter() {
        for u in r.clone() {
            if out.len() >= max {
                return out;
            }
            if let Some(c) = char::from_u32(u) {
                if representable_char(id, c) {
                    out.push(c);
                }
            }
        }
    }
    out
}

pub fn repertoire(id: i32, max: usize) -> Vec<char> {
    let mut out = Vec::new();
    let probes: [std::ops::RangeInclusive<u32>; 8] = [
        0xA0..=0x17F,
        0x386..=0x3CE,
        0x401..=0x45F,
        0x5D0..=0x5EA,
        0x621..=0x64A,
        0x3041..=0x30FE,
        0x4E00..=0x4F00,
        0xAC00..=0xAC80,
    ];
    if id == 65001 || id == 0 {
        return vec!['é', 'ß', 'Ж', 'א', '日', '本', '한', '😀', '\u{3800}', '𝄞'];
    }
    for r in probes.iter() {
        let mut taken = 0;
        for u in r.clone() {
            if let Some(c) = char::from_u32(u) {
                if representable_char(id, c) {
                    out.push(c);
                    taken += 1;
                    if taken >= max / 2 + 1 {
                        break;
                    }
                }
            }
        }
        if out.len() >= max {
            break;
        }
    }
    out.truncate(max);
    out
}
