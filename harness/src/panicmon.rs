//! Panic supervision: a process-wide hook stores message, location and a
//! backtrace in a thread-local slot; every library call made by a monitor goes
//! through `guarded`.

use std::cell::RefCell;
use std::panic::{self, AssertUnwindSafe};
use std::sync::Once;

#[derive(Clone, Debug)]
pub struct PanicInfo {
    pub message: String,
    /// file:line of the panic location as reported by the panic machinery
    pub location: String,
    /// first frame that belongs to the repository (msi:: / msi_ffi::), if any
    pub repo_frame: String,
}

impl PanicInfo {
    /// Stable signature: crate-relative file:line + message with numbers and
    /// quoted strings abstracted.
    pub fn signature(&self) -> String {
        format!("{}|{}", rel_location(&self.location), abstract_msg(&self.message))
    }

    /// True when the panic was raised by harness code (a bug in the monitor,
    /// never a verdict about the library).
    pub fn in_harness(&self) -> bool {
        self.location.contains("/harness/src/") || self.location.starts_with("src/")
    }
}

pub fn rel_location(loc: &str) -> String {
    // "/repo/src/internal/expr.rs:416:35" -> "src/internal/expr.rs:416"
    let mut s = loc.to_string();
    if let Some(p) = s.find("/registry/src/") {
        let rest = &s[p + 14..];
        if let Some(q) = rest.find('/') {
            s = rest[q + 1..].to_string();
        }
    } else if let Some(p) = s.find("/ffi/src/") {
        // repository sources, wherever the (scratch copy of the) repository lives
        s = s[p + 1..].to_string();
    } else if let Some(p) = s.rfind("/src/") {
        s = s[p + 1..].to_string();
    }
    let parts: Vec<&str> = s.split(':').collect();
    if parts.len() >= 2 {
        format!("{}:{}", parts[0], parts[1])
    } else {
        s
    }
}

pub fn abstract_msg(msg: &str) -> String {
    let mut out = String::new();
    let mut chars = msg.chars().peekable();
    let mut in_quote = false;
    while let Some(c) = chars.next() {
        if in_quote {
            if c == '\\' {
                chars.next();
            } else if c == '"' {
                in_quote = false;
                out.push_str("\"_\"");
            }
            continue;
        }
        if c == '"' {
            in_quote = true;
            continue;
        }
        if c.is_ascii_digit() {
            while let Some(&d) = chars.peek() {
                if d.is_ascii_digit() {
                    chars.next();
                } else {
                    break;
                }
            }
            out.push('#');
            continue;
        }
        out.push(c);
    }
    if out.len() > 160 {
        let mut cut = 160;
        while !out.is_char_boundary(cut) {
            cut -= 1;
        }
        out.truncate(cut);
    }
    out
}

thread_local! {
    static SLOT: RefCell<Option<PanicInfo>> = const { RefCell::new(None) };
    static QUIET: RefCell<bool> = const { RefCell::new(true) };
}

static INSTALL: Once = Once::new();

pub fn install() {
    INSTALL.call_once(|| {
        panic::set_hook(Box::new(|info| {
            let message = if let Some(s) = info.payload().downcast_ref::<&str>() {
                s.to_string()
            } else if let Some(s) = info.payload().downcast_ref::<String>() {
                s.clone()
            } else {
                "<non-string panic payload>".to_string()
            };
            let location = info
                .location()
                .map(|l| format!("{}:{}:{}", l.file(), l.line(), l.column()))
                .unwrap_or_else(|| "<unknown>".into());
            let bt = std::backtrace::Backtrace::force_capture().to_string();
            let mut repo_frame = String::new();
            for line in bt.lines() {
                let l = line.trim();
                if let Some((n, rest)) = l.split_once(": ") {
                    if n.chars().all(|c| c.is_ascii_digit())
                        && (rest.starts_with("msi::")
                            || rest.starts_with("<msi::")
                            || rest.starts_with("msi_ffi::"))
                    {
                        repo_frame = rest.to_string();
                        break;
                    }
                }
            }
            let quiet = QUIET.with(|q| *q.borrow()) && std::env::var_os("VERIF_DEBUG_PANICS").is_none();
            if !quiet {
                eprintln!("panic: {} at {}", message, location);
            }
            SLOT.with(|s| {
                *s.borrow_mut() = Some(PanicInfo { message, location, repo_frame });
            });
        }));
    });
}

/// Runs `f`; a panic is caught and reported as `Err`.
pub fn guarded<T>(f: impl FnOnce() -> T) -> Result<T, PanicInfo> {
    install();
    SLOT.with(|s| *s.borrow_mut() = None);
    match panic::catch_unwind(AssertUnwindSafe(f)) {
        Ok(v) => Ok(v),
        Err(_) => {
            let info = SLOT.with(|s| s.borrow_mut().take()).unwrap_or(PanicInfo {
                message: "<panic without hook info>".into(),
                location: "<unknown>".into(),
                repo_frame: String::new(),
            });
            Err(info)
        }
    }
}
