//! Query-tree model (Table | Filter | Project | Inner | Left) with the
//! documented naming (prefix `table.` when the operand is a named table;
//! first-match lookup), evaluated with nested-loop semantics; plus statement
//! shapes used by the printed-query check.

use crate::exprmodel::{self as em, Adm, Env, MExpr};
use crate::types::V;
use std::collections::BTreeMap;

#[derive(Clone, Copy, Debug, PartialEq, Eq, Hash)]
pub enum JoinKind {
    Inner,
    Left,
}

#[derive(Clone, Debug, PartialEq, Eq, Hash)]
pub enum MFrom {
    Table(String),
    Join { kind: JoinKind, l: Box<MSelect>, r: Box<MSelect>, on: MExpr },
    /// only produced by the text reader (the API cannot build it)
    Sub(Box<MSelect>),
}

#[derive(Clone, Debug, PartialEq, Eq, Hash)]
pub struct MSelect {
    pub from: MFrom,
    pub cols: Vec<String>,
    pub cond: Option<MExpr>,
}

#[derive(Clone, Debug, PartialEq, Eq)]
pub enum MStmt {
    Select(MSelect),
    Insert { table: String, rows: Vec<Vec<V>> },
    Update { table: String, sets: Vec<(String, V)>, cond: Option<MExpr> },
    Delete { table: String, cond: Option<MExpr> },
}

impl MSelect {
    pub fn table(name: &str) -> MSelect {
        MSelect { from: MFrom::Table(name.to_string()), cols: vec![], cond: None }
    }
    pub fn join(kind: JoinKind, l: MSelect, r: MSelect, on: MExpr) -> MSelect {
        MSelect { from: MFrom::Join { kind, l: Box::new(l), r: Box::new(r), on }, cols: vec![], cond: None }
    }
    pub fn with(mut self, e: MExpr) -> MSelect {
        self.cond = Some(e);
        self
    }
    pub fn columns(mut self, c: &[&str]) -> MSelect {
        self.cols = c.iter().map(|s| s.to_string()).collect();
        self
    }

    pub fn lower(&self) -> msi::Select {
        let mut s = match &self.from {
            MFrom::Table(t) => msi::Select::table(t.clone()),
            MFrom::Join { kind: JoinKind::Inner, l, r, on } => l.lower().inner_join(r.lower(), em::lower(on)),
            MFrom::Join { kind: JoinKind::Left, l, r, on } => l.lower().left_join(r.lower(), em::lower(on)),
            MFrom::Sub(s) => s.lower(),
        };
        if !self.cols.is_empty() {
            s = s.columns(&self.cols);
        }
        match crate::model::split_and(&self.cond) {
            Some((a, b)) => s = s.with(em::lower(a)).with(em::lower(b)),
            None => {
                if let Some(c) = &self.cond {
                    s = s.with(em::lower(c));
                }
            }
        }
        s
    }

    pub fn depth(&self) -> usize {
        match &self.from {
            MFrom::Table(_) => 0,
            MFrom::Join { l, r, .. } => 1 + l.depth().max(r.depth()),
            MFrom::Sub(s) => 1 + s.depth(),
        }
    }

    pub fn show(&self) -> String {
        let from = match &self.from {
            MFrom::Table(t) => t.clone(),
            MFrom::Join { kind, l, r, on } => format!(
                "[{} {} {} ON {}]",
                l.show(),
                if *kind == JoinKind::Inner { "INNER" } else { "LEFT" },
                r.show(),
                em::show(on)
            ),
            MFrom::Sub(s) => format!("<{}>", s.show()),
        };
        let mut s = from;
        if let Some(c) = &self.cond {
            s = format!("filter({}, {})", s, em::show(c));
        }
        if !self.cols.is_empty() {
            s = format!("project({}, {:?})", s, self.cols);
        }
        s
    }
}

#[derive(Clone, Debug, PartialEq, Eq)]
pub struct Rel {
    pub name: Option<String>,
    pub cols: Vec<String>,
    pub rows: Vec<Vec<V>>,
}

#[derive(Clone, Debug, PartialEq, Eq)]
pub enum QErr {
    UnknownTable(String),
    UnknownColumn(String),
    /// truth of some condition is not fixed by the documentation
    Ambiguous,
}

struct RelEnv<'a> {
    cols: &'a [String],
    row: &'a [V],
}

impl<'a> Env for RelEnv<'a> {
    fn get(&self, name: &str) -> Option<Adm> {
        let i = self.cols.iter().position(|c| c == name)?;
        Some(em::cell_adm(&self.row[i]))
    }
}

fn check_cols(cols: &[String], e: &MExpr) -> Result<(), QErr> {
    let mut cs = std::collections::BTreeSet::new();
    em::columns_of(e, &mut cs);
    for c in cs {
        if !cols.iter().any(|x| *x == c) {
            return Err(QErr::UnknownColumn(c));
        }
    }
    Ok(())
}

fn truth(cols: &[String], row: &[V], e: &MExpr) -> Result<bool, QErr> {
    let env = RelEnv { cols, row };
    match em::eval(e, &env) {
        None => Err(QErr::Ambiguous),
        Some(a) => a.truth().ok_or(QErr::Ambiguous),
    }
}

/// Base tables: name -> (column names, rows in ascending key order).
pub type Db = BTreeMap<String, (Vec<String>, Vec<Vec<V>>)>;

pub fn eval_select(db: &Db, s: &MSelect) -> Result<Rel, QErr> {
    let mut rel = match &s.from {
        MFrom::Table(t) => {
            let (cols, rows) = db.get(t).ok_or_else(|| QErr::UnknownTable(t.clone()))?;
            Rel { name: Some(t.clone()), cols: cols.clone(), rows: rows.clone() }
        }
        MFrom::Sub(inner) => eval_select(db, inner)?,
        MFrom::Join { kind, l, r, on } => {
            let a = eval_select(db, l)?;
            let b = eval_select(db, r)?;
            let pref = |rel: &Rel| -> Vec<String> {
                match &rel.name {
                    Some(n) => rel.cols.iter().map(|c| format!("{}.{}", n, c)).collect(),
                    None => rel.cols.clone(),
                }
            };
            let mut cols = pref(&a);
            cols.extend(pref(&b));
            check_cols(&cols, on)?;
            let mut rows = Vec::new();
            for x in &a.rows {
                let mut any = false;
                for y in &b.rows {
                    let mut row = x.clone();
                    row.extend(y.iter().cloned());
                    if truth(&cols, &row, on)? {
                        rows.push(row);
                        any = true;
                    }
                }
                if !any && *kind == JoinKind::Left {
                    let mut row = x.clone();
                    row.extend(std::iter::repeat(V::Null).take(b.cols.len()));
                    rows.push(row);
                }
            }
            Rel { name: None, cols, rows }
        }
    };
    // projection names are validated against the unprojected relation
    let mut idx = Vec::new();
    for c in &s.cols {
        match rel.cols.iter().position(|x| x == c) {
            Some(i) => idx.push(i),
            None => return Err(QErr::UnknownColumn(c.clone())),
        }
    }
    if let Some(c) = &s.cond {
        check_cols(&rel.cols, c)?;
        let mut keep = Vec::new();
        for row in &rel.rows {
            if truth(&rel.cols, row, c)? {
                keep.push(row.clone());
            }
        }
        rel.rows = keep;
    }
    if !idx.is_empty() {
        rel.cols = idx.iter().map(|&i| rel.cols[i].clone()).collect();
        rel.rows = rel.rows.iter().map(|r| idx.iter().map(|&i| r[i].clone()).collect()).collect();
        rel.name = None;
    }
    Ok(rel)
}
