//! Independent reader of the text form of expressions and queries, using the
//! precedence ladder of the project's own query grammar
//! (OR < AND < NOT < comparison < | < ^ < & < shifts < + - < * / < unary - ~;
//! binary operators left-associative; NOT only where the grammar admits it).

use crate::exprmodel::{Bin, MExpr, Un};
use crate::querymodel::{JoinKind, MFrom, MSelect, MStmt};
use crate::types::V;

#[derive(Clone, Debug, PartialEq)]
pub enum Tok {
    Int(i64),
    Str(String),
    Ident(String),
    Kw(&'static str),
    Op(&'static str),
    LParen,
    RParen,
    Comma,
    Star,
}

const KEYWORDS: [&str; 19] = [
    "AND", "DELETE", "FALSE", "FROM", "INNER", "INSERT", "INTO", "JOIN", "LEFT", "NOT", "NULL", "ON", "OR", "SELECT", "SET",
    "TRUE", "UPDATE", "VALUES", "WHERE",
];

pub fn lex(text: &str) -> Result<Vec<Tok>, String> {
    let cs: Vec<char> = text.chars().collect();
    let mut i = 0;
    let mut out = Vec::new();
    while i < cs.len() {
        let c = cs[i];
        if c == ' ' {
            i += 1;
            continue;
        }
        if c.is_ascii_digit() {
            let st = i;
            while i < cs.len() && cs[i].is_ascii_digit() {
                i += 1;
            }
            if i < cs.len() && (cs[i].is_ascii_alphanumeric() || cs[i] == '_') {
                return Err(format!("malformed number at {}", st));
            }
            let s: String = cs[st..i].iter().collect();
            out.push(Tok::Int(s.parse::<i64>().map_err(|e| e.to_string())?));
            continue;
        }
        if c.is_ascii_alphabetic() || c == '_' {
            let st = i;
            // compound identifier: ident ("." ident)*
            loop {
                while i < cs.len() && (cs[i].is_ascii_alphanumeric() || cs[i] == '_') {
                    i += 1;
                }
                if i + 1 < cs.len() && cs[i] == '.' && (cs[i + 1].is_ascii_alphabetic() || cs[i + 1] == '_') {
                    i += 1;
                    continue;
                }
                break;
            }
            let s: String = cs[st..i].iter().collect();
            let up = s.to_ascii_uppercase();
            if let Some(k) = KEYWORDS.iter().find(|k| **k == up) {
                out.push(Tok::Kw(k));
            } else {
                out.push(Tok::Ident(s));
            }
            continue;
        }
        if c == '"' || c == '\'' {
            let q = c;
            i += 1;
            let mut s = String::new();
            loop {
                if i >= cs.len() {
                    return Err("unterminated string".into());
                }
                let d = cs[i];
                if d == q {
                    i += 1;
                    break;
                }
                if d == '\\' {
                    i += 1;
                    if i >= cs.len() {
                        return Err("bad escape".into());
                    }
                    match cs[i] {
                        '\\' => s.push('\\'),
                        '"' => s.push('"'),
                        '\'' => s.push('\''),
                        'n' => s.push('\n'),
                        'r' => s.push('\r'),
                        't' => s.push('\t'),
                        other => return Err(format!("unsupported escape \\{}", other)),
                    }
                    i += 1;
                    continue;
                }
                s.push(d);
                i += 1;
            }
            out.push(Tok::Str(s));
            continue;
        }
        let two: String = cs[i..(i + 2).min(cs.len())].iter().collect();
        let op2 = match two.as_str() {
            "<=" => Some("<="),
            ">=" => Some(">="),
            "!=" => Some("!="),
            "<<" => Some("<<"),
            ">>" => Some(">>"),
            _ => None,
        };
        if let Some(o) = op2 {
            out.push(Tok::Op(o));
            i += 2;
            continue;
        }
        let t = match c {
            '(' => Tok::LParen,
            ')' => Tok::RParen,
            ',' => Tok::Comma,
            '*' => Tok::Star,
            '=' => Tok::Op("="),
            '<' => Tok::Op("<"),
            '>' => Tok::Op(">"),
            '+' => Tok::Op("+"),
            '-' => Tok::Op("-"),
            '/' => Tok::Op("/"),
            '&' => Tok::Op("&"),
            '|' => Tok::Op("|"),
            '^' => Tok::Op("^"),
            '~' => Tok::Op("~"),
            other => return Err(format!("unexpected character {:?}", other)),
        };
        out.push(t);
        i += 1;
    }
    Ok(out)
}

pub struct Parser {
    toks: Vec<Tok>,
    pos: usize,
}

const L_OR: u8 = 1;
const L_AND: u8 = 2;
const L_NOT: u8 = 3;
const L_CMP: u8 = 4;
const L_UNARY: u8 = 11;

fn bin_level(t: &Tok) -> Option<(u8, Option<Bin>)> {
    Some(match t {
        Tok::Kw("OR") => (L_OR, None),
        Tok::Kw("AND") => (L_AND, None),
        Tok::Op("=") => (L_CMP, Some(Bin::Eq)),
        Tok::Op("!=") => (L_CMP, Some(Bin::Ne)),
        Tok::Op("<") => (L_CMP, Some(Bin::Lt)),
        Tok::Op("<=") => (L_CMP, Some(Bin::Le)),
        Tok::Op(">") => (L_CMP, Some(Bin::Gt)),
        Tok::Op(">=") => (L_CMP, Some(Bin::Ge)),
        Tok::Op("|") => (5, Some(Bin::BitOr)),
        Tok::Op("^") => (6, Some(Bin::BitXor)),
        Tok::Op("&") => (7, Some(Bin::BitAnd)),
        Tok::Op("<<") => (8, Some(Bin::Shl)),
        Tok::Op(">>") => (8, Some(Bin::Shr)),
        Tok::Op("+") => (9, Some(Bin::Add)),
        Tok::Op("-") => (9, Some(Bin::Sub)),
        Tok::Star => (10, Some(Bin::Mul)),
        Tok::Op("/") => (10, Some(Bin::Div)),
        _ => return None,
    })
}

impl Parser {
    pub fn new(text: &str) -> Result<Parser, String> {
        Ok(Parser { toks: lex(text)?, pos: 0 })
    }
    fn peek(&self) -> Option<&Tok> {
        self.toks.get(self.pos)
    }
    fn next(&mut self) -> Option<Tok> {
        let t = self.toks.get(self.pos).cloned();
        self.pos += 1;
        t
    }
    fn expect(&mut self, t: Tok) -> Result<(), String> {
        match self.next() {
            Some(ref x) if *x == t => Ok(()),
            other => Err(format!("expected {:?}, found {:?}", t, other)),
        }
    }
    fn eat(&mut self, t: &Tok) -> bool {
        if self.peek() == Some(t) {
            self.pos += 1;
            true
        } else {
            false
        }
    }
    pub fn at_end(&self) -> bool {
        self.pos >= self.toks.len()
    }

    pub fn expr(&mut self) -> Result<MExpr, String> {
        self.level(L_OR)
    }

    fn level(&mut self, l: u8) -> Result<MExpr, String> {
        if l == L_NOT {
            if self.eat(&Tok::Kw("NOT")) {
                let a = self.level(L_NOT)?;
                return Ok(MExpr::Un(Un::Not, Box::new(a)));
            }
            return self.level(L_CMP);
        }
        if l >= L_UNARY {
            return self.unary();
        }
        let mut left = self.level(l + 1)?;
        loop {
            let (lv, op) = match self.peek().and_then(bin_level) {
                Some(x) => x,
                None => break,
            };
            if lv != l {
                break;
            }
            self.pos += 1;
            let right = self.level(l + 1)?;
            left = match op {
                Some(b) => MExpr::Bin(b, Box::new(left), Box::new(right)),
                None if l == L_OR => MExpr::Or(Box::new(left), Box::new(right)),
                None => MExpr::And(Box::new(left), Box::new(right)),
            };
        }
        Ok(left)
    }

    fn unary(&mut self) -> Result<MExpr, String> {
        match self.peek() {
            Some(Tok::Op("-")) => {
                // the grammar's Integer token: "-"? digits, when directly followed by digits
                if let Some(Tok::Int(n)) = self.toks.get(self.pos + 1) {
                    let n = *n;
                    self.pos += 2;
                    let v = -n;
                    if v < i32::MIN as i64 {
                        return Err("integer literal out of range".into());
                    }
                    return Ok(MExpr::Lit(V::Int(v as i32)));
                }
                self.pos += 1;
                let a = self.unary()?;
                Ok(MExpr::Un(Un::Neg, Box::new(a)))
            }
            Some(Tok::Op("~")) => {
                self.pos += 1;
                let a = self.unary()?;
                Ok(MExpr::Un(Un::BitNot, Box::new(a)))
            }
            _ => self.primary(),
        }
    }

    fn literal(&mut self) -> Result<V, String> {
        match self.next() {
            Some(Tok::Int(n)) => {
                if n > i32::MAX as i64 {
                    return Err("integer literal out of range".into());
                }
                Ok(V::Int(n as i32))
            }
            Some(Tok::Op("-")) => match self.next() {
                Some(Tok::Int(n)) if -n >= i32::MIN as i64 => Ok(V::Int((-n) as i32)),
                other => Err(format!("expected digits after '-', found {:?}", other)),
            },
            Some(Tok::Str(s)) => Ok(V::Str(s)),
            Some(Tok::Kw("NULL")) => Ok(V::Null),
            Some(Tok::Kw("TRUE")) => Ok(V::Int(1)),
            Some(Tok::Kw("FALSE")) => Ok(V::Int(0)),
            other => Err(format!("expected a literal, found {:?}", other)),
        }
    }

    fn primary(&mut self) -> Result<MExpr, String> {
        match self.peek().cloned() {
            Some(Tok::LParen) => {
                self.pos += 1;
                let e = self.expr()?;
                self.expect(Tok::RParen)?;
                Ok(e)
            }
            Some(Tok::Ident(s)) => {
                self.pos += 1;
                Ok(MExpr::Col(s))
            }
            Some(Tok::Int(_)) | Some(Tok::Str(_)) | Some(Tok::Kw("NULL")) | Some(Tok::Kw("TRUE")) | Some(Tok::Kw("FALSE")) => {
                Ok(MExpr::Lit(self.literal()?))
            }
            other => Err(format!("expected an operand, found {:?}", other)),
        }
    }

    fn ident(&mut self) -> Result<String, String> {
        match self.next() {
            Some(Tok::Ident(s)) => Ok(s),
            other => Err(format!("expected an identifier, found {:?}", other)),
        }
    }

    // ---- statements

    fn table2(&mut self) -> Result<MSelect, String> {
        if self.eat(&Tok::LParen) {
            let s = self.select()?;
            self.expect(Tok::RParen)?;
            Ok(s)
        } else {
            Ok(MSelect::table(&self.ident()?))
        }
    }

    pub fn select(&mut self) -> Result<MSelect, String> {
        self.expect(Tok::Kw("SELECT"))?;
        let mut cols = Vec::new();
        if !self.eat(&Tok::Star) {
            cols.push(self.ident()?);
            while self.eat(&Tok::Comma) {
                cols.push(self.ident()?);
            }
        }
        self.expect(Tok::Kw("FROM"))?;
        let first = self.table2()?;
        let from = if matches!(self.peek(), Some(Tok::Kw("INNER")) | Some(Tok::Kw("LEFT"))) {
            let kind = if self.next() == Some(Tok::Kw("INNER")) { JoinKind::Inner } else { JoinKind::Left };
            self.expect(Tok::Kw("JOIN"))?;
            let second = self.table2()?;
            self.expect(Tok::Kw("ON"))?;
            let on = self.expr()?;
            MFrom::Join { kind, l: Box::new(first), r: Box::new(second), on }
        } else {
            // a bare table, or a parenthesised sub-select used as the source
            match first {
                MSelect { from: MFrom::Table(t), cols: c, cond: None } if c.is_empty() => MFrom::Table(t),
                other => MFrom::Sub(Box::new(other)),
            }
        };
        let cond = if self.eat(&Tok::Kw("WHERE")) { Some(self.expr()?) } else { None };
        Ok(MSelect { from, cols, cond })
    }

    pub fn statement(&mut self) -> Result<MStmt, String> {
        match self.peek() {
            Some(Tok::Kw("SELECT")) => Ok(MStmt::Select(self.select()?)),
            Some(Tok::Kw("DELETE")) => {
                self.pos += 1;
                self.expect(Tok::Kw("FROM"))?;
                let table = self.ident()?;
                let cond = if self.eat(&Tok::Kw("WHERE")) { Some(self.expr()?) } else { None };
                Ok(MStmt::Delete { table, cond })
            }
            Some(Tok::Kw("INSERT")) => {
                self.pos += 1;
                self.expect(Tok::Kw("INTO"))?;
                let table = self.ident()?;
                let mut rows = Vec::new();
                if self.eat(&Tok::Kw("VALUES")) {
                    loop {
                        self.expect(Tok::LParen)?;
                        let mut row = vec![self.literal()?];
                        while self.eat(&Tok::Comma) {
                            row.push(self.literal()?);
                        }
                        self.expect(Tok::RParen)?;
                        rows.push(row);
                        if !self.eat(&Tok::Comma) {
                            break;
                        }
                    }
                }
                Ok(MStmt::Insert { table, rows })
            }
            Some(Tok::Kw("UPDATE")) => {
                self.pos += 1;
                let table = self.ident()?;
                self.expect(Tok::Kw("SET"))?;
                let mut sets = Vec::new();
                loop {
                    let c = self.ident()?;
                    self.expect(Tok::Op("="))?;
                    sets.push((c, self.literal()?));
                    if !self.eat(&Tok::Comma) {
                        break;
                    }
                }
                let cond = if self.eat(&Tok::Kw("WHERE")) { Some(self.expr()?) } else { None };
                Ok(MStmt::Update { table, sets, cond })
            }
            other => Err(format!("expected a statement, found {:?}", other)),
        }
    }
}

pub fn parse_expr(text: &str) -> Result<MExpr, String> {
    let mut p = Parser::new(text)?;
    let e = p.expr()?;
    if !p.at_end() {
        return Err(format!("trailing input at token {}", p.pos));
    }
    Ok(e)
}

pub fn parse_statement(text: &str) -> Result<MStmt, String> {
    let mut p = Parser::new(text)?;
    let s = p.statement()?;
    if !p.at_end() {
        return Err(format!("trailing input at token {}", p.pos));
    }
    Ok(s)
}
