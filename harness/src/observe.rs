//! `observe(&mut Package) -> Obs`: everything the public API exposes.

use crate::types::{ColDef, V};
use serde_json::{json, Value as J};
use std::collections::BTreeMap;
use std::io::{Read, Seek};
use std::time::{SystemTime, UNIX_EPOCH};

#[derive(Clone, Debug, PartialEq, Eq)]
pub struct TableObs {
    pub cols: Vec<ColDef>,
    pub rows: Vec<Vec<V>>,
}

#[derive(Clone, Debug, PartialEq, Eq, Default)]
pub struct SummaryObs {
    pub codepage: i32,
    pub title: Option<String>,
    pub subject: Option<String>,
    pub author: Option<String>,
    pub comments: Option<String>,
    pub creating_app: Option<String>,
    pub uuid: Option<String>,
    pub word_count: Option<i32>,
    /// nanoseconds relative to the Unix epoch
    pub creation_time: Option<i128>,
    pub arch: Option<String>,
    pub languages: Vec<u16>,
}

#[derive(Clone, Debug, PartialEq, Eq)]
pub struct Obs {
    pub ptype: &'static str,
    pub db_codepage: i32,
    pub tables: BTreeMap<String, TableObs>,
    /// stream listing as yielded (sorted; duplicates preserved)
    pub stream_names: Vec<String>,
    pub streams: BTreeMap<String, Vec<u8>>,
    pub summary: SummaryObs,
    pub has_sig: bool,
}

pub fn ptype_name(t: msi::PackageType) -> &'static str {
    match t {
        msi::PackageType::Installer => "Installer",
        msi::PackageType::Patch => "Patch",
        msi::PackageType::Transform => "Transform",
    }
}

pub fn time_to_ns(t: SystemTime) -> i128 {
    match t.duration_since(UNIX_EPOCH) {
        Ok(d) => d.as_nanos() as i128,
        Err(e) => -(e.duration().as_nanos() as i128),
    }
}

pub fn observe_summary(s: &msi::SummaryInfo) -> SummaryObs {
    SummaryObs {
        codepage: s.codepage().id(),
        title: s.title().map(|x| x.to_string()),
        subject: s.subject().map(|x| x.to_string()),
        author: s.author().map(|x| x.to_string()),
        comments: s.comments().map(|x| x.to_string()),
        creating_app: s.creating_application().map(|x| x.to_string()),
        uuid: s.uuid().map(|u| u.hyphenated().to_string()),
        word_count: s.word_count(),
        creation_time: s.creation_time().map(time_to_ns),
        arch: s.arch().map(|x| x.to_string()),
        languages: s.languages().iter().map(|l| l.code()).collect(),
    }
}

/// Row-level API consistency problems found while observing
/// (Rows::len vs yielded count, Row::len, Row[index], Row[name]).
#[derive(Default, Debug)]
pub struct ApiIssues(pub Vec<String>);

pub fn read_table<F: Read + Seek>(
    pkg: &mut msi::Package<F>,
    name: &str,
    issues: &mut ApiIssues,
) -> Result<TableObs, String> {
    let cols: Vec<ColDef> = match pkg.get_table(name) {
        Some(t) => t.columns().iter().map(ColDef::from_msi).collect(),
        None => return Err(format!("get_table({:?}) is None for a listed table", name)),
    };
    let rows = pkg
        .select_rows(msi::Select::table(name))
        .map_err(|e| format!("select_rows({:?}) failed: {}", name, e))?;
    let rcols: Vec<ColDef> = rows.columns().iter().map(ColDef::from_msi).collect();
    if rcols != cols {
        issues.0.push(format!("Rows::columns() of {:?} differs from Table::columns()", name));
    }
    let mut expected_len = rows.len();
    let mut out = Vec::with_capacity(expected_len);
    let mut rows = rows;
    loop {
        let before = rows.len();
        match rows.next() {
            Some(row) => {
                if before != expected_len {
                    issues.0.push(format!("Rows::len() of {:?} is {} where {} rows remain", name, before, expected_len));
                }
                expected_len = expected_len.saturating_sub(1);
                if row.len() != cols.len() {
                    issues.0.push(format!("Row::len() {} != {} columns in {:?}", row.len(), cols.len(), name));
                }
                let mut vals = Vec::with_capacity(row.len());
                for i in 0..row.len() {
                    vals.push(V::from_msi(&row[i]));
                }
                // Row[name] must agree with Row[index] for the first column of that name
                for (i, c) in cols.iter().enumerate() {
                    let first = cols.iter().position(|d| d.name == c.name).unwrap();
                    if first == i && row.has_column(&c.name) {
                        let by_name = V::from_msi(&row[c.name.as_str()]);
                        if i < vals.len() && by_name != vals[i] {
                            issues.0.push(format!("Row[{:?}] != Row[{}] in {:?}", c.name, i, name));
                        }
                    } else if first == i {
                        issues.0.push(format!("Row::has_column({:?}) false in {:?}", c.name, name));
                    }
                }
                out.push(vals);
            }
            None => {
                if before != 0 {
                    issues.0.push(format!("Rows::len() of {:?} is {} after exhaustion", name, before));
                }
                break;
            }
        }
    }
    if expected_len != 0 {
        issues.0.push(format!("Rows::len() of {:?} over-reported by {}", name, expected_len));
    }
    Ok(TableObs { cols, rows: out })
}

pub fn observe<F: Read + Seek>(pkg: &mut msi::Package<F>) -> Result<(Obs, ApiIssues), String> {
    let mut issues = ApiIssues::default();
    let names: Vec<String> = pkg.tables().map(|t| t.name().to_string()).collect();
    let mut tables = BTreeMap::new();
    for n in &names {
        if !pkg.has_table(n) {
            issues.0.push(format!("has_table({:?}) false for a listed table", n));
        }
        let t = read_table(pkg, n, &mut issues)?;
        if tables.insert(n.clone(), t).is_some() {
            issues.0.push(format!("table {:?} listed twice", n));
        }
    }
    let mut stream_names: Vec<String> = pkg.streams().collect();
    stream_names.sort();
    let mut streams = BTreeMap::new();
    for n in &stream_names {
        if !pkg.has_stream(n) {
            issues.0.push(format!("has_stream({:?}) false for a listed stream", n));
        }
        let mut data = Vec::new();
        match pkg.read_stream(n) {
            Ok(mut r) => {
                r.read_to_end(&mut data).map_err(|e| format!("reading stream {:?}: {}", n, e))?;
            }
            Err(e) => return Err(format!("read_stream({:?}) failed for a listed stream: {}", n, e)),
        }
        streams.insert(n.clone(), data);
    }
    let obs = Obs {
        ptype: ptype_name(pkg.package_type()),
        db_codepage: pkg.database_codepage().id(),
        tables,
        stream_names,
        streams,
        summary: observe_summary(pkg.summary_info()),
        has_sig: pkg.has_digital_signature(),
    };
    Ok((obs, issues))
}

impl Obs {
    /// Applies the identification "" ≍ null to every cell.
    pub fn norm(&self) -> Obs {
        let mut o = self.clone();
        for t in o.tables.values_mut() {
            for r in t.rows.iter_mut() {
                for v in r.iter_mut() {
                    *v = v.norm();
                }
            }
        }
        o
    }

    /// First difference between two observations, as text (None = equal
    /// modulo "" ≍ null).
    pub fn diff(&self, other: &Obs) -> Option<String> {
        if self.ptype != other.ptype {
            return Some(format!("package type {} vs {}", self.ptype, other.ptype));
        }
        if self.db_codepage != other.db_codepage {
            return Some(format!("database code page {} vs {}", self.db_codepage, other.db_codepage));
        }
        let a: Vec<&String> = self.tables.keys().collect();
        let b: Vec<&String> = other.tables.keys().collect();
        if a != b {
            return Some(format!("table list {:?} vs {:?}", a, b));
        }
        for (n, t) in &self.tables {
            let u = &other.tables[n];
            if t.cols != u.cols {
                for (i, (c, d)) in t.cols.iter().zip(u.cols.iter()).enumerate() {
                    if c != d {
                        return Some(format!("table {:?} column {}: {} vs {}", n, i, c.to_json(), d.to_json()));
                    }
                }
                return Some(format!("table {:?}: {} vs {} columns", n, t.cols.len(), u.cols.len()));
            }
            if t.rows.len() != u.rows.len() {
                return Some(format!("table {:?}: {} vs {} rows", n, t.rows.len(), u.rows.len()));
            }
            for (i, (r, s)) in t.rows.iter().zip(u.rows.iter()).enumerate() {
                let rn: Vec<V> = r.iter().map(|v| v.norm()).collect();
                let sn: Vec<V> = s.iter().map(|v| v.norm()).collect();
                if rn != sn {
                    return Some(format!(
                        "table {:?} row {}: {} vs {}",
                        n,
                        i,
                        crate::types::row_json(r),
                        crate::types::row_json(s)
                    ));
                }
            }
        }
        if self.stream_names != other.stream_names {
            return Some(format!("stream list {:?} vs {:?}", self.stream_names, other.stream_names));
        }
        for (n, d) in &self.streams {
            if other.streams.get(n) != Some(d) {
                return Some(format!(
                    "stream {:?} contents differ ({} vs {} bytes)",
                    n,
                    d.len(),
                    other.streams.get(n).map(|x| x.len()).unwrap_or(0)
                ));
            }
        }
        if self.summary != other.summary {
            return Some(format!("summary {:?} vs {:?}", self.summary, other.summary));
        }
        if self.has_sig != other.has_sig {
            return Some(format!("has_digital_signature {} vs {}", self.has_sig, other.has_sig));
        }
        None
    }

    pub fn brief(&self) -> J {
        json!({
            "ptype": self.ptype,
            "db_codepage": self.db_codepage,
            "tables": self.tables.iter().map(|(n, t)| json!({"name": n, "cols": t.cols.len(), "rows": t.rows.len()})).collect::<Vec<_>>(),
            "streams": self.stream_names,
            "summary_codepage": self.summary.codepage,
        })
    }
}
