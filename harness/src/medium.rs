//! Instrumented in-memory medium: every package under test lives on one of
//! these, never on a bare `Cursor`.
//!
//! * `live`    – every write applied (what reads see, what a caller gets back
//!               from `into_inner` or finds in the file after dropping the package)
//! * `durable` – copy of `live` taken whenever `flush()` is called on the
//!               medium itself: what survives a crash right after a flush
//! * call counters + optional fault plan (fail the k-th write/read/seek,
//!   once or from then on), with the innermost `msi::`/`cfb::` frames of the
//!   injection site captured as a stable fault-site signature.

use std::cell::RefCell;
use std::io::{self, Read, Seek, SeekFrom, Write};
use std::rc::Rc;

#[derive(Clone, Copy, Debug, PartialEq, Eq)]
pub enum FaultKind {
    Write,
    Read,
    Seek,
    Flush,
}

#[derive(Clone, Copy, Debug)]
pub struct Fault {
    pub kind: FaultKind,
    /// index (0-based, counted from the moment the plan is armed) of the call that fails
    pub at: u64,
    pub persistent: bool,
    /// the injected error has kind `UnexpectedEof` (what a medium that lost its tail reports) instead of `Other`
    pub as_eof: bool,
}

#[derive(Clone, Debug, Default)]
pub struct Counts {
    pub reads: u64,
    pub writes: u64,
    pub seeks: u64,
    pub flushes: u64,
    pub bytes_written: u64,
    pub bytes_read: u64,
}

#[derive(Default)]
struct Inner {
    live: Vec<u8>,
    durable: Vec<u8>,
    counts: Counts,
    fault: Option<Fault>,
    // counters relative to arming
    armed_counts: Counts,
    fired: u64,
    fire_site: Option<String>,
    /// maximum number of bytes accepted per write call (0 = unlimited)
    short_write: usize,
    /// offsets+lengths of writes since the log was last cleared (bounded)
    write_log: Vec<(u64, usize)>,
    log_writes: bool,
}

/// Owner-side view of the medium (kept by the monitor).
#[derive(Clone)]
pub struct Medium {
    inner: Rc<RefCell<Inner>>,
}

/// The `Read + Write + Seek` object handed to `Package`.
pub struct Handle {
    inner: Rc<RefCell<Inner>>,
    pos: u64,
}

impl Default for Medium {
    fn default() -> Self {
        Medium::new()
    }
}

impl Medium {
    pub fn new() -> Medium {
        Medium { inner: Rc::new(RefCell::new(Inner::default())) }
    }

    pub fn from_bytes(bytes: Vec<u8>) -> Medium {
        let m = Medium::new();
        {
            let mut i = m.inner.borrow_mut();
            i.durable = bytes.clone();
            i.live = bytes;
        }
        m
    }

    pub fn handle(&self) -> Handle {
        Handle { inner: self.inner.clone(), pos: 0 }
    }

    pub fn live(&self) -> Vec<u8> {
        self.inner.borrow().live.clone()
    }

    pub fn live_len(&self) -> usize {
        self.inner.borrow().live.len()
    }

    pub fn live_eq(&self, other: &[u8]) -> bool {
        self.inner.borrow().live == other
    }

    pub fn durable(&self) -> Vec<u8> {
        self.inner.borrow().durable.clone()
    }

    pub fn counts(&self) -> Counts {
        self.inner.borrow().counts.clone()
    }

    pub fn reset_counts(&self) {
        self.inner.borrow_mut().counts = Counts::default();
    }

    /// Arms a fault; indices count from this moment.
    pub fn arm(&self, fault: Fault) {
        let mut i = self.inner.borrow_mut();
        i.fault = Some(fault);
        i.armed_counts = Counts::default();
        i.fired = 0;
        i.fire_site = None;
    }

    pub fn disarm(&self) {
        self.inner.borrow_mut().fault = None;
    }

    pub fn fired(&self) -> u64 {
        self.inner.borrow().fired
    }

    pub fn fire_site(&self) -> Option<String> {
        self.inner.borrow().fire_site.clone()
    }

    /// Calls seen since arming.
    pub fn armed_counts(&self) -> Counts {
        self.inner.borrow().armed_counts.clone()
    }

    pub fn set_short_write(&self, n: usize) {
        self.inner.borrow_mut().short_write = n;
    }

    pub fn log_writes(&self, on: bool) {
        let mut i = self.inner.borrow_mut();
        i.log_writes = on;
        i.write_log.clear();
    }

    pub fn write_log(&self) -> Vec<(u64, usize)> {
        self.inner.borrow().write_log.clone()
    }
}

fn injected(kind: FaultKind, idx: u64) -> io::Error {
    io::Error::new(io::ErrorKind::Other, format!("injected {:?} fault at call {}", kind, idx))
}

/// Reduces a backtrace to "innermost msi frame | innermost cfb frame".
fn site_signature() -> String {
    let bt = std::backtrace::Backtrace::force_capture().to_string();
    let mut msi_frame: Option<String> = None;
    let mut cfb_frame: Option<String> = None;
    for line in bt.lines() {
        let l = line.trim();
        // frames look like "12: msi::internal::table::Table::write_rows"
        let name = match l.split_once(": ") {
            Some((n, rest)) if n.chars().all(|c| c.is_ascii_digit()) => rest,
            _ => continue,
        };
        let clean = strip_hash(name);
        if msi_frame.is_none() && (clean.starts_with("msi::") || clean.starts_with("<msi::")) {
            msi_frame = Some(clean.clone());
        }
        if cfb_frame.is_none() && (clean.starts_with("cfb::") || clean.starts_with("<cfb::")) {
            cfb_frame = Some(clean.clone());
        }
    }
    format!(
        "{}|{}",
        msi_frame.unwrap_or_else(|| "-".into()),
        cfb_frame.unwrap_or_else(|| "-".into())
    )
}

fn strip_hash(name: &str) -> String {
    // drop trailing ::h0123456789abcdef and generic parameter noise
    let mut s = name.to_string();
    if let Some(pos) = s.rfind("::h") {
        if s.len() - pos == 19 && s[pos + 3..].chars().all(|c| c.is_ascii_hexdigit()) {
            s.truncate(pos);
        }
    }
    // collapse <...> generic args to keep signatures stable across F types
    let mut out = String::new();
    let mut depth = 0i32;
    for (i, c) in s.chars().enumerate() {
        match c {
            '<' if i > 0 => {
                depth += 1;
            }
            '>' if depth > 0 => {
                depth -= 1;
            }
            _ if depth == 0 => out.push(c),
            _ => {}
        }
    }
    out
}

impl Inner {
    fn check_fault(&mut self, kind: FaultKind) -> io::Result<()> {
        let idx = match kind {
            FaultKind::Write => self.armed_counts.writes,
            FaultKind::Read => self.armed_counts.reads,
            FaultKind::Seek => self.armed_counts.seeks,
            FaultKind::Flush => self.armed_counts.flushes,
        };
        match kind {
            FaultKind::Write => self.armed_counts.writes += 1,
            FaultKind::Read => self.armed_counts.reads += 1,
            FaultKind::Seek => self.armed_counts.seeks += 1,
            FaultKind::Flush => self.armed_counts.flushes += 1,
        }
        if let Some(f) = self.fault {
            if f.kind == kind && (idx == f.at || (f.persistent && idx > f.at)) {
                self.fired += 1;
                if self.fire_site.is_none() {
                    self.fire_site = Some(site_signature());
                }
                if f.as_eof {
                    return Err(io::Error::new(io::ErrorKind::UnexpectedEof, format!("injected {:?} fault (end-of-file kind) at call {}", kind, idx)));
                }
                return Err(injected(kind, idx));
            }
        }
        Ok(())
    }
}

impl Read for Handle {
    fn read(&mut self, buf: &mut [u8]) -> io::Result<usize> {
        let mut i = self.inner.borrow_mut();
        i.counts.reads += 1;
        i.check_fault(FaultKind::Read)?;
        let len = i.live.len() as u64;
        if self.pos >= len {
            return Ok(0);
        }
        let start = self.pos as usize;
        let n = buf.len().min(i.live.len() - start);
        buf[..n].copy_from_slice(&i.live[start..start + n]);
        self.pos += n as u64;
        i.counts.bytes_read += n as u64;
        Ok(n)
    }
}

impl Write for Handle {
    fn write(&mut self, buf: &[u8]) -> io::Result<usize> {
        let mut i = self.inner.borrow_mut();
        i.counts.writes += 1;
        i.check_fault(FaultKind::Write)?;
        let n = if i.short_write > 0 { buf.len().min(i.short_write) } else { buf.len() };
        let start = self.pos as usize;
        if i.live.len() < start + n {
            i.live.resize(start + n, 0);
        }
        i.live[start..start + n].copy_from_slice(&buf[..n]);
        if i.log_writes && i.write_log.len() < 100_000 {
            i.write_log.push((self.pos, n));
        }
        self.pos += n as u64;
        i.counts.bytes_written += n as u64;
        Ok(n)
    }

    fn flush(&mut self) -> io::Result<()> {
        let mut i = self.inner.borrow_mut();
        i.counts.flushes += 1;
        i.check_fault(FaultKind::Flush)?;
        i.durable = i.live.clone();
        Ok(())
    }
}

impl Seek for Handle {
    fn seek(&mut self, from: SeekFrom) -> io::Result<u64> {
        let mut i = self.inner.borrow_mut();
        i.counts.seeks += 1;
        i.check_fault(FaultKind::Seek)?;
        let len = i.live.len() as i128;
        let target: i128 = match from {
            SeekFrom::Start(p) => p as i128,
            SeekFrom::End(d) => len + d as i128,
            SeekFrom::Current(d) => self.pos as i128 + d as i128,
        };
        if target < 0 {
            return Err(io::Error::new(io::ErrorKind::InvalidInput, "seek before start"));
        }
        self.pos = target as u64;
        Ok(self.pos)
    }
}
