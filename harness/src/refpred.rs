//! Reference validity predicate, written from the doc comments of `Column`
//! and `Category` (hand-coded recognisers; no code shared with the library).

use crate::types::{ColDef, CT, V};

#[derive(Clone, Copy, Debug, PartialEq, Eq)]
pub enum Verdict {
    Valid,
    Invalid,
    /// the documentation does not settle the answer: either is accepted
    Unspecified,
}

impl Verdict {
    pub fn admits(&self, lib_says_valid: bool) -> bool {
        match self {
            Verdict::Valid => lib_says_valid,
            Verdict::Invalid => !lib_says_valid,
            Verdict::Unspecified => true,
        }
    }
}

fn is_ident(s: &str) -> bool {
    let mut chars = s.chars();
    match chars.next() {
        Some(c) if c.is_ascii_alphabetic() || c == '_' => {}
        _ => return false,
    }
    chars.all(|c| c.is_ascii_alphanumeric() || c == '_' || c == '.')
}

/// Optionally signed decimal; returns the value when it fits i64, and a flag
/// telling whether an explicit '+' was used.
fn parse_decimal(s: &str, allow_sign: bool) -> Option<(i128, bool)> {
    let (neg, plus, digits) = if let Some(r) = s.strip_prefix('-') {
        (true, false, r)
    } else if let Some(r) = s.strip_prefix('+') {
        (false, true, r)
    } else {
        (false, false, s)
    };
    if (neg || plus) && !allow_sign {
        // still parse, caller decides (used to flag '+' as unspecified)
    }
    if digits.is_empty() || !digits.bytes().all(|b| b.is_ascii_digit()) {
        return None;
    }
    // avoid overflow on absurdly long digit strings
    let trimmed = digits.trim_start_matches('0');
    if trimmed.len() > 30 {
        return Some((if neg { -(1i128 << 100) } else { 1i128 << 100 }, plus));
    }
    let mut v: i128 = 0;
    for b in trimmed.bytes() {
        v = v * 10 + (b - b'0') as i128;
    }
    Some((if neg { -v } else { v }, plus))
}

fn u16_number(part: &str) -> Verdict {
    // a plain decimal number in 0..=65535
    if part.is_empty() {
        return Verdict::Invalid;
    }
    if let Some(rest) = part.strip_prefix('+') {
        // "+5": a sign is not a digit, but the documentation only says
        // "numbers"; left unspecified when the rest is a valid number
        return match u16_number_plain(rest) {
            true => Verdict::Unspecified,
            false => Verdict::Invalid,
        };
    }
    if u16_number_plain(part) {
        Verdict::Valid
    } else {
        Verdict::Invalid
    }
}

fn u16_number_plain(part: &str) -> bool {
    if part.is_empty() || !part.bytes().all(|b| b.is_ascii_digit()) {
        return false;
    }
    match parse_decimal(part, false) {
        Some((v, _)) => (0..=65535).contains(&v),
        None => false,
    }
}

fn all_parts(parts: Vec<&str>) -> Verdict {
    let mut unspec = false;
    for p in parts {
        match u16_number(p) {
            Verdict::Invalid => return Verdict::Invalid,
            Verdict::Unspecified => unspec = true,
            Verdict::Valid => {}
        }
    }
    if unspec {
        Verdict::Unspecified
    } else {
        Verdict::Valid
    }
}

fn signed_text(s: &str, lo: i128, hi: i128) -> Verdict {
    match parse_decimal(s, true) {
        None => Verdict::Invalid,
        Some((v, plus)) => {
            if v < lo || v > hi {
                Verdict::Invalid
            } else if plus {
                // "+47": "a signed 16-bit integer" – an explicit plus sign is
                // not excluded by the documentation
                Verdict::Unspecified
            } else if s == "-0" || s.starts_with("-0") && v == 0 {
                Verdict::Valid
            } else {
                Verdict::Valid
            }
        }
    }
}

fn is_guid(s: &str) -> bool {
    // {8-4-4-4-12} upper-case hex
    let b: Vec<char> = s.chars().collect();
    if b.len() != 38 || b[0] != '{' || b[37] != '}' {
        return false;
    }
    for (i, c) in b[1..37].iter().enumerate() {
        let dash = matches!(i, 8 | 13 | 18 | 23);
        if dash {
            if *c != '-' {
                return false;
            }
        } else if !(c.is_ascii_digit() || ('A'..='F').contains(c)) {
            return false;
        }
    }
    true
}

fn cabinet(s: &str) -> Verdict {
    if let Some(rest) = s.strip_prefix('#') {
        return if is_ident(rest) { Verdict::Valid } else { Verdict::Invalid };
    }
    // "a short filename (at most eight characters, a period, and a
    // three-character extension)"
    let (base, ext) = match s.rfind('.') {
        Some(p) => (&s[..p], Some(&s[p + 1..])),
        None => (s, None),
    };
    let base_chars = base.chars().count();
    let ext_chars = ext.map(|e| e.chars().count()).unwrap_or(0);
    let by_chars = base_chars >= 1 && base_chars <= 8 && ext_chars <= 3;
    let by_bytes = !base.is_empty() && base.len() <= 8 && ext.map(|e| e.len()).unwrap_or(0) <= 3;
    if by_chars == by_bytes {
        if by_chars {
            Verdict::Valid
        } else {
            Verdict::Invalid
        }
    } else {
        // non-ASCII names: bytes vs characters is not settled
        Verdict::Unspecified
    }
}

pub fn category_verdict(cat: &str, s: &str) -> Verdict {
    let yes = |b: bool| if b { Verdict::Valid } else { Verdict::Invalid };
    match cat {
        "UpperCase" => yes(!s.chars().any(|c| c.is_ascii_lowercase())),
        "LowerCase" => yes(!s.chars().any(|c| c.is_ascii_uppercase())),
        "Integer" => signed_text(s, -32768, 32767),
        "DoubleInteger" => signed_text(s, -(1i128 << 31), (1i128 << 31) - 1),
        "Identifier" => yes(is_ident(s)),
        "Property" => yes(is_ident(s.strip_prefix('%').unwrap_or(s))),
        "GUID" => yes(is_guid(s)),
        "Version" => {
            let parts: Vec<&str> = s.split('.').collect();
            if parts.len() > 4 {
                Verdict::Invalid
            } else {
                all_parts(parts)
            }
        }
        "Language" => all_parts(s.split(',').collect()),
        "Cabinet" => cabinet(s),
        _ => Verdict::Valid,
    }
}

/// `ref_valid(column definition, value)`.
pub fn ref_valid(col: &ColDef, v: &V) -> Verdict {
    match v {
        V::Null => {
            if col.nullable {
                Verdict::Valid
            } else {
                Verdict::Invalid
            }
        }
        V::Int(n) => {
            let n = *n as i64;
            let type_ok = match col.ty {
                CT::Int16 => (-32767..=32767).contains(&n),
                CT::Int32 => (-(i32::MAX as i64)..=(i32::MAX as i64)).contains(&n),
                CT::Str(_) => false,
            };
            if !type_ok {
                return Verdict::Invalid;
            }
            if let Some((lo, hi)) = col.range {
                if n < lo as i64 || n > hi as i64 {
                    return Verdict::Invalid;
                }
            }
            Verdict::Valid
        }
        V::Str(s) => {
            let w = match col.ty {
                CT::Str(w) => w,
                _ => return Verdict::Invalid,
            };
            if w != 0 && s.chars().count() > w {
                return Verdict::Invalid;
            }
            if !col.enums.is_empty() && !col.enums.iter().any(|e| e == s) {
                return Verdict::Invalid;
            }
            let v = match col.category {
                Some(c) => category_verdict(c, s),
                None => Verdict::Valid,
            };
            // the empty string and null are the file format's single value: whether "" is acceptable in a
            // NON-nullable string column is not settled by the documentation (either answer accepted)
            if v == Verdict::Valid && s.is_empty() && !col.nullable {
                return Verdict::Unspecified;
            }
            v
        }
    }
}
