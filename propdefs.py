"""Per-property definitions shared by ./check and MANIFEST.json generation."""
import json

TRUST_CFB = "the cfb crate (container format) is a trusted base shared with the library"
TRUST_ENC = "encoding_rs tables (resolved via Encoding::for_label) are the code-page oracle, shared dependency of the library"
TRUST_MODEL = "the harness's reference model / reference validity predicate, written from the documentation, is correct"
TRUST_CODEC = "the harness's independent MSI/property-set codec, written from the format description, is correct"

BOTH = {"quick": ["checked"], "thorough": ["checked", "release"]}

PROPS = {}


def prop(pid, **kw):
    kw.setdefault("lanes", BOTH)
    kw.setdefault("level", "exploration")
    kw.setdefault("implemented", True)
    kw.setdefault("min_counters", {})
    PROPS[pid] = kw


prop(
    "C14",
    title="Code pages encode losslessly what they can represent and match their names",
    technique="differential runtime monitor vs encoding_rs oracle, exhaustive over all scalars x 26 pages, in an overflow/assertion-instrumented build",
    rule="every (page, scalar) pair, every 1- and 2-byte input per page, strings sliding multi-byte/unmappable markers over "
         "the 1024-byte chunk boundary, identifier ranges; a case is distinct by (page, outcome class = replaced / byte length, "
         "Unicode block) resp. (page, lead byte, decoded length) resp. identifier; non-trivial = the library was actually called on it",
    level_text="Exhaustive execution of the real encode/decode/from_id/id code on the complete finite domain (1,112,064 scalars x 26 "
               "pages; all 1-2 byte inputs; 2^21 ids quick / 2^32 thorough) under a differential oracle and the algebraic laws; strings "
               "across the chunk boundary are sampled. For a pure function over a finite domain, observing every input is as strong as "
               "runtime monitoring gets.",
    level_note="Oracle = encoding_rs looked up by WHATWG label (independent of codepage.rs's own table; same crate as the library uses). "
               "28591 is judged against windows-1252 as for_label('iso-8859-1') denotes; 0x80-0x9F of true ISO-8859-1 not decided.",
    assumptions=[TRUST_ENC, "28591 judged as windows-1252 (WHATWG iso-8859-1 label)"],
    design_ref="3/C14",
    min_counters={"quick": {"scalars_roundtrip": 1000000, "decode_inputs": 1000000}, "thorough": {"scalars_roundtrip": 1000000}},
)

ALL_IDS = ["C%02d" % i for i in range(1, 21)]


def write_manifest(path):
    checks = []
    na = []
    for pid in ALL_IDS:
        pd = PROPS.get(pid)
        if not pd or not pd.get("implemented"):
            na.append({"property_id": pid, "reason": "check not built yet (work in progress in this session; planned per DESIGN.md section 3)"})
            continue
        checks.append({
            "property_id": pid,
            "quick_cmd": "./check %s quick" % pid,
            "thorough_cmd": "./check %s thorough" % pid,
            "evidence_file": "/verif/evidence/%s.json" % pid,
            "replay_cmd_template": "./check %s --replay {path}" % pid,
            "engine": "mv",
            "level_claimed": {"category": pd["level"], "text": pd["level_text"], "design_ref": "DESIGN.md section " + pd["design_ref"]},
            "level_note": pd["level_note"],
            "technique": pd["technique"],
        })
    doc = {
        "version": 1,
        "setup_cmd": "./check --build",
        "hooks": {
            "guard": "--cfg msi_verif",
            "enable": "harness/.cargo/config.toml passes RUSTFLAGS --cfg msi_verif to every build of /repo made by the checks",
            "baseline_off_cmd": "cd /repo && cargo test --workspace --no-fail-fast --offline",
            "source_commits": [],
            "add_only": True,
        },
        "engines": [{
            "name": "mv",
            "path": "/verif/harness",
            "serves_properties": [c["property_id"] for c in checks],
            "kind_free_text": "Rust monitor binary (reference model, independent codec, instrumented medium, panic supervisor) driven by the python ./check driver; sanitizer lanes in lanes.py",
        }],
        "checks": checks,
        "notes": "Runtime monitoring: every check executes the real library from /repo's working tree (path dependency, rebuilt on every run) under directed + bounded-exhaustive + seeded random workloads; see DESIGN.md.",
        "not_applicable": na,
    }
    json.dump(doc, open(path, "w"), indent=1)
    open(path, "a").write("\n")
