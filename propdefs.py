"""Per-property definitions shared by ./check and MANIFEST.json generation."""
import json

TRUST_CFB = "the cfb crate (container format) is a trusted base shared with the library"
TRUST_ENC = "encoding_rs tables (resolved via Encoding::for_label) are the code-page oracle, shared dependency of the library"
TRUST_MODEL = "the harness's reference model / reference validity predicate, written from the documentation, is correct"
TRUST_CODEC = "the harness's independent MSI/property-set codec, written from the format description, is correct"

BOTH = {"quick": ["checked"], "thorough": ["checked", "release"]}

PROPS = {}


def prop(pid, **kw):
    kw.setdefault("lanes", BOTH)
    kw.setdefault("level", "exploration")
    kw.setdefault("implemented", True)
    kw.setdefault("min_counters", {})
    PROPS[pid] = kw


prop(
    "C14",
    title="Code pages encode losslessly what they can represent and match their names",
    technique="differential runtime monitor vs encoding_rs oracle, exhaustive over all scalars x 26 pages, in an overflow/assertion-instrumented build",
    rule="every (page, scalar) pair, every 1- and 2-byte input per page, strings sliding multi-byte/unmappable markers over "
         "the 1024-byte chunk boundary, identifier ranges; a case is distinct by (page, outcome class = replaced / byte length, "
         "Unicode block) resp. (page, lead byte, decoded length) resp. identifier; non-trivial = the library was actually called on it",
    level_text="Exhaustive execution of the real encode/decode/from_id/id code on the complete finite domain (1,112,064 scalars x 26 "
               "pages; all 1-2 byte inputs; 2^21 ids quick / 2^32 thorough) under a differential oracle and the algebraic laws; strings "
               "across the chunk boundary are sampled. For a pure function over a finite domain, observing every input is as strong as "
               "runtime monitoring gets.",
    level_note="Oracle = encoding_rs looked up by WHATWG label (independent of codepage.rs's own table; same crate as the library uses). "
               "28591 is judged against windows-1252 as for_label('iso-8859-1') denotes; 0x80-0x9F of true ISO-8859-1 not decided.",
    assumptions=[TRUST_ENC, "28591 judged as windows-1252 (WHATWG iso-8859-1 label)"],
    design_ref="3/C14",
    min_counters={"quick": {"scalars_roundtrip": 1000000, "decode_inputs": 1000000}, "thorough": {"scalars_roundtrip": 1000000}},
)

prop(
    "C13",
    title="Expression evaluation is total and follows the documented operators",
    technique="reference-evaluator runtime monitor (admissible result sets) + panic supervisor over bounded-exhaustive and random expression trees, built twice (literal-folded and lazy) and used as select/update/delete conditions; overflow-checked build",
    rule="trees over the 18 operators + AND/OR and the 12-leaf battery: all depth-1 trees, depth-2 trees with one composite child "
         "(1/40 slice quick, all thorough), random trees to depth 6; each evaluated with literal leaves (constant folding) and with "
         "column leaves (lazy) and a sample as WHERE of select/update/delete and as ON of an inner and a left join; distinct = distinct tree shape (operators + leaf value classes); "
         "non-trivial = both constructions were executed and compared with the reference set",
    level_text="Runs the real Expr constructors/eval and the query executor on every small tree and a large random sample in the "
               "overflow-checking build (where the arithmetic defects are panics) and in release; results are judged against a reference "
               "evaluator that returns the set of results the documentation admits.",
    level_note="Reference evaluator written from the operator docs; cross-type ordering comparisons only required to give 0/1; i32::MIN and '' "
               "cannot be stored in cells, so their lazy forms are ~cMax and a literal.",
    assumptions=[TRUST_MODEL],
    design_ref="3/C13",
    min_counters={"quick": {"depth1_trees": 2484, "used_as_update_condition": 1000}, "thorough": {"depth1_trees": 2484}},
)

prop(
    "C17",
    title="Language codes and tags map consistently",
    technique="law-checking runtime monitor, exhaustive over all 65,536 codes and bounded-exhaustive over tag strings",
    rule="all 65,536 codes; every tag in the image of tag(); 36 pinned LCID pairs; all ll / lll / ll-RR (and lll-RR in thorough) letter tags in "
         "lower/upper case, mutated table tags and random strings; distinct = (law class, language part, resulting code)",
    level_text="Exhaustive on the code side (finite domain fully enumerated), bounded-exhaustive on the tag side; every call goes through the public "
               "from_code/code/from_tag/tag under a panic supervisor.",
    level_note="The tag table is recovered as the image of tag(); pinned pairs come from the Windows LCID reference and only name entries the table claims.",
    assumptions=["pinned identifier/tag pairs are transcribed correctly from the Windows LCID reference"],
    design_ref="3/C17",
    min_counters={"quick": {"codes_checked": 65536}, "thorough": {"codes_checked": 65536}},
)

prop(
    "C18",
    title="Creation times convert to and from Windows timestamps without drift",
    technique="law-checking runtime monitor (drift < 100 ns, idempotence, monotonicity, saturation) through Package::summary_info_mut(), with a save+reopen sample",
    rule="every tick within +-300 ticks of 1601-01-01, 1970-01-01 and tick 2^64-1 with sub-tick ns 0..199, and of +-(2^64-1) ticks from 1970 (must saturate); platform SystemTime extremes; save+reopen in seven session shapes x three closing modes (time set after table operations / on a reopened package / next to double-byte or NUL-containing strings) and with 1,800 comment lengths that move "
         "the stored time across the 4/8/16 KiB boundaries of the summary stream; "
         "uniform / log-uniform / clustered / modern random times sorted in blocks of 256; distinct = (class, magnitude bucket, sub-tick residue, tick mod 8)",
    level_text="Millions of set/get executions on a live package with exact integer (i128 ns) oracles for the four laws; 1 in 4096 values also goes "
               "through flush + reopen.",
    level_note="SystemTime arithmetic of the platform is trusted.",
    assumptions=["std::time::SystemTime arithmetic is exact on this platform"],
    design_ref="3/C18",
    min_counters={"quick": {"reopen_samples": 50}, "thorough": {"reopen_samples": 50}},
)

prop(
    "C19",
    title="Printed queries mean what the query objects mean",
    technique="print -> independent precedence parser -> re-evaluation on a row battery (runtime differential monitor on to_string()); every parent/child operator pair enumerated",
    rule="every (parent operator, child operator, side) triple over all 20 operators with column/literal leaves; depth-3 chains (one operator per "
         "precedence level quick, all thorough); random trees to depth 6; random SELECT/INSERT/UPDATE/DELETE with nested joins, conditions built by one or by two with() calls; distinct = "
         "three-level operator shape resp. statement shape; non-trivial = text was produced, parsed and compared",
    level_text="Each printed text is re-read with the ladder the property states and compared with the object by evaluating both on all "
               "value combinations (10 values per column, up to 3 columns exhaustively); violations are minimised to the culprit operator pair.",
    level_note="Literal-only subtrees are folded by the library at construction (judged by C13); the object's meaning is taken with those literals as printed by the library.",
    assumptions=["the harness parser implements the stated ladder (OR < AND < NOT < comparison < | < ^ < & < shifts < +- < */ < unary), left-associative", TRUST_MODEL],
    design_ref="3/C19",
    min_counters={"quick": {"operator_pair_trees": 3000, "statements_select": 500}, "thorough": {"operator_pair_trees": 3000}},
)

prop(
    "C01",
    title="Everything written is read back after close and reopen",
    technique="close-point runtime monitor on an instrumented medium (live + durable-at-flush images), model-checked observations, every history position closed in all three modes",
    rule="directed scenarios (empty-string cells, shared strings, >64 KiB strings, integer boundaries, 3 package types, each of the 26 code pages "
         "with strings from its repertoire, multi-byte summary strings, a 32-column table, 1- and 2-character columns, long non-ASCII strings whose UTF-8 and encoded lengths straddle 65,535 bytes), directed save intervals holding SEVERAL operations (string change + re-setting the current code page, "
         "table change + summary change, stream + table + summary) and seeded random histories (create/drop table, insert, update, delete, "
         "streams, 20 summary setters/clearers, code-page changes); a close point after EVERY operation, each history run 3 times with mode(i) = "
         "(i+pass) mod 3; distinct = fingerprint of (operation kinds, schema shapes, value classes, close modes); non-trivial = at least one successful mutation",
    level_text="Every close point compares the full public observation before closing with the observation after reopening the bytes (flush: the "
               "image durable when flush() returned Ok AND the live image; into_inner / drop: the medium afterwards), then re-saves without change "
               "and compares again; the observation is also compared with the reference model so that 'before' is really what was written.",
    level_note="Strings are drawn only from the chosen code page's repertoire (oracle-computed). Medium semantics: 'durable' = copy taken when flush() reaches the medium.",
    assumptions=[TRUST_CFB, TRUST_ENC, TRUST_MODEL],
    design_ref="3/C01",
    lanes={"quick": ["checked"], "thorough": ["checked", "release", {"kind": "miri", "which": "scenarios"}]},
    min_counters={"quick": {"close_points_Flush": 500, "close_points_IntoInner": 500, "close_points_Drop": 500, "directed_scenarios": 30},
                  "thorough": {"close_points_Flush": 5000, "directed_scenarios": 30}},
)

prop(
    "C03",
    title="Insert, update, delete and select follow the relational model",
    technique="reference-model runtime monitor after every operation (whole-observation frame condition) + select oracle; bounded-exhaustive operation words and seeded random histories",
    rule="all words up to depth 4 (quick) / 5 (thorough) over a 14-letter alphabet (single/batch/duplicate inserts, value and KEY-column updates to fresh / "
         "colliding / order-changing values, deletes by key / value / all, reopen, drop+recreate) from a base image; random 50-200 operation histories over 1-4 "
         "tables with composite / string / nullable keys and reopen points; directed operation lists (tables named like the format's own streams, sessions that only move reference counts); random WHERE programs + projections against the model; distinct = the word resp. "
         "history fingerprint; non-trivial = at least one successful mutation",
    level_text="After every call the complete public observation (all tables incl. catalog frame, streams, summary) is compared with an in-memory relational "
               "model; a structural rejection by the model against a library Ok is a violation; selects are compared row by row in order, with Rows::len, "
               "Row::len, Row[i], Row[name] consistency.",
    level_note="Conditions whose truth the documentation leaves open (overflow, cross-type ordering, '' vs null cells) are skipped and counted.",
    assumptions=[TRUST_MODEL, TRUST_CFB],
    design_ref="3/C03",
    min_counters={"quick": {"alphabet_sequences": 60000, "selects_checked": 20000, "call_ok_update_where": 1000}, "thorough": {"alphabet_sequences": 500000}},
)

prop(
    "C05",
    title="Stored tables always keep unique, ordered keys and valid cells",
    technique="state-invariant runtime monitor (unique + ascending keys, reference validity of every cell) after every operation and every reopen; key-affecting operation words enumerated",
    rule="all words up to depth 5 (quick) / 6 (thorough) over the 7 key-affecting letters; directed null-vs-empty-string, composite-key, 65,534/65,535/65,536-byte cell, repeated key-assignment and lossy-code-page key scenarios; random histories "
         "weighted to key-column updates (55%), near-duplicate batches and delete/insert cycles, with reopen points; distinct = word / history fingerprint; non-trivial = a successful mutation",
    level_text="The invariant is evaluated on every table (catalog tables included) in every observed state, with the harness's own reference validity predicate "
               "(not the library's is_valid_value), and again after reopening.",
    level_note="Order is checked pairwise with the documented order (ints numeric, strings by scalar value); null vs non-null placement is not constrained.",
    assumptions=[TRUST_MODEL],
    design_ref="3/C05",
    min_counters={"quick": {"alphabet_sequences": 7000}, "thorough": {"alphabet_sequences": 130000}},
)

prop(
    "C08",
    title="Saved files are well-formed MSI databases with exact string accounting",
    technique="offline checker over recorded saved images: independent MSI-format decoder + reference-count conservation (refcount == referring cells) + leftover-token search, at every prefix of every history",
    rule="the saved image after every operation (flush-and-snapshot lane) and after every close (into_inner/drop lane) of directed scenarios (slot reuse, last reference "
         "released, string shared by two tables and the catalog, dropped table with rows, empty strings; thorough: 65,540 references to one string), the string-pool limit scenarios "
         "(last addressable entry in use, sessions that only lower reference counts) and random histories; "
         "distinct = history fingerprint; non-trivial = a successful mutation was saved",
    level_text="Every saved image is parsed by harness code written from the format description (only the cfb container crate is shared) and compared cell by cell with "
               "what the API reports; conservation: each pool entry's refcount equals the number of referring cells in all tables, dead entries are empty, no live empty "
               "entry, lengths sum to _StringData, unique tokens of deleted data are absent from _StringData.",
    level_note="Unique tokens are embedded in every generated string so leftovers are unambiguous.",
    assumptions=[TRUST_CFB, TRUST_CODEC, TRUST_ENC],
    design_ref="3/C08",
    min_counters={"quick": {"saved_images_decoded": 5000}, "thorough": {"saved_images_decoded": 100000}},
)

prop(
    "C04",
    title="Rejected operations change nothing",
    technique="before/after snapshot runtime monitor around ~90 families of deliberately invalid calls at random reachable states: live observation, reopened observation and independently decoded file must all equal the pre-call state",
    rule="random states (3-14 valid operations, optional reopen) x invalid-call families: name checks, column-list checks, LATE create_table failures (33-64 char column "
         "names, 33-60 char table names, enum sets over 255 chars, bad foreign keys, ranges with i32::MIN, unrepresentable widths), drop/insert/update/delete/select/stream "
         "calls with unknown/invalid/reserved names, wrong arity, wrong-typed members of an enumeration, invalid value in first/last batch row, duplicate keys vs existing rows and within the batch, key-collision "
         "updates; each family also in isolation on fresh states; refused calls at the capacity limits (65,537th row carrying a new string, 65,536th pool entry via insert/update, "
         "create_table whose catalog rows need one string more than the 3 free entries) incl. string accounting of the saved file; eleven scenarios on packages whose catalog was edited by hand and reopened (_Validation or a user table uncatalogued, _Validation's own description narrowed), where a refused call must also leave the "
         "container's streams (stored name, length) untouched; distinct = (family, table count, row-count class); non-trivial = the call returned Err and all three comparisons ran",
    level_text="The monitor only binds calls that actually returned Err; for those it compares the complete API snapshot, the snapshot after flush+reopen, and the "
               "independent decoder's string accounting (no pool entry, catalog row or text of the rejected call may exist).",
    level_note="A call the generator meant to be invalid but the library accepts is counted (unexpected_ok) and left to C06/C07.",
    assumptions=[TRUST_CFB, TRUST_CODEC],
    design_ref="3/C04",
    min_counters={"quick": {"rejected_calls": 5000, "isolated_family_runs": 150}, "thorough": {"rejected_calls": 100000}},
)

prop(
    "C06",
    title="A created table reopens with the schema it was created with",
    technique="schema round-trip runtime monitor: every attribute getter compared immediately and after flush+reopen, foreign keys read from _Validation; single-attribute sweeps, pairwise combinations, random column lists",
    rule="374 single-attribute sweeps (widths 0..65536, 26 categories x 4 column kinds, enumerations incl. separators/empty/255-256 joined, ranges over boundary integers, "
         "foreign keys, 8 flag combinations x 3 types, 1/2/31/32 columns, name lengths 1..65), pairwise combinations (1/97 slice quick, 1/3 thorough), random lists of 1-32 columns; multi-table sessions (names of tables, columns, categories and enumeration values drawn from one small pool incl. dotted names) over several "
         "save/reopen cycles with drops in between; "
         "distinct = (kind, per-column attribute shape); non-trivial = create_table returned Ok and both comparisons ran (Err = refused, admissible)",
    level_text="Every accepted definition is read back through the public getters right after create_table and again from a reopened copy of the flushed bytes.",
    level_note="Err is admissible for C06 (refused rather than altered); that a refusal leaves nothing behind is decided by C04.",
    assumptions=[TRUST_CFB],
    design_ref="3/C06",
    min_counters={"quick": {"accepted": 1500, "sweep_tables": 370}, "thorough": {"accepted": 50000}},
)

prop(
    "C07",
    title="Rows are accepted exactly when every value is valid for its column",
    technique="differential runtime monitor vs a hand-written reference validity predicate, at the pure-predicate level (bounded-exhaustive strings / boundary integers) and at the live insert/update gate",
    rule="all strings up to length 5-7 over per-category adversarial alphabets (identifier/property/cabinet, version, language, upper/lower), signed/zero-padded integer "
         "texts around the 16/32-bit limits, a GUID with every position mutated, widths at w-1/w/w+1 with multi-byte characters, integers within +-2 of every boundary and "
         "declared bound, random Unicode strings; then ~26k inserts + ~20k updates on a live package, every gate both in the creating session and after save + reopen, single-value ranges, updates assigning the column twice "
         "(one value invalid, either order), rows holding the candidate string twice (free column + tested column), columns with a category AND an enumeration, invalid updates that select no row, directed library-built language lists and UUIDs, arity 0..33; distinct = (category, verdict, length, character-class mask) "
         "resp. (column shape, value shape); non-trivial = library and reference were both evaluated",
    level_text="Both Category::validate / Column::is_valid_value and the Ok/Err of insert_rows / update_rows are compared with a predicate written from the documentation; "
               "spots the documentation leaves open are marked Unspecified and accept either answer.",
    level_note="Unspecified: explicit '+' in version/language/integer texts, cabinet name lengths with non-ASCII characters.",
    assumptions=[TRUST_MODEL],
    design_ref="3/C07",
    min_counters={"quick": {"gate_inserts": 5000, "gate_updates": 3000}, "thorough": {"gate_inserts": 20000}},
)

prop(
    "C10",
    title="Summary information survives saving, in every code page",
    technique="reference-model runtime monitor of the ten summary properties + independent property-set parser over every saved stream (offset alignment, exact section size, typed values)",
    rule="for each of the 26 pages: strings with every (ascii count, multi-byte count) in 0..4 x 0..4 for up to 3 character shapes on all five string properties; all 26 x 26 "
         "ordered switch pairs A -> B -> UTF-8 -> A; arch/language/uuid/word-count/time set-clear orders; strings crossing the 4/8/16/64 KiB boundaries of the stream (ASCII and double-byte); random 5-30 step setter/clearer histories with save points and "
         "continuation on the reopened package, a quarter of them with unrepresentable strings; distinct = scenario parameters resp. setter-kind sequence; non-trivial = at least one save point was checked",
    level_text="After every setter the getters are compared with the model; at every save point the reopened getters AND an independent parse of the raw summary stream "
               "(header, section size == stream length - offset, 4-byte aligned offsets pointing at typed values, no overlap) are compared with the model.",
    level_note="Unrepresentable strings are only required to leave every other property intact and the stream well-formed.",
    assumptions=[TRUST_CFB, TRUST_CODEC, TRUST_ENC],
    design_ref="3/C10",
    min_counters={"quick": {"save_points": 5000, "switch_pairs": 676}, "thorough": {"save_points": 100000}},
)

prop(
    "C11",
    title="Binary streams keep their names and contents, apart from the tables",
    technique="stream-map reference-model runtime monitor + raw container entry diff through the independent decoder; bounded-exhaustive adversarial names",
    rule="all names of length <= 2 (quick, plus 1/5 of length 3) / <= 3 (thorough) over a 20-character alphabet (packable, unpackable ASCII/non-ASCII, packing-range "
         "characters U+3800/3FFF/4800/483F, table marker, path separators, reserved characters, control characters), each batched with the name its packed form unpacks to; "
         "packable names of every length 1..66; special names (pool, catalog, user table, summary, signatures, with and without the table marker, '.', '..', 'a/b'); contents 0..70,000 "
         "bytes; write/overwrite/remove histories interleaved with table operations (incl. tables and streams sharing a name, create_table, drop_table) and reopen; distinct = (name class, length in chars, length in UTF-16 units) resp. history log",
    level_text="After every accepted write all live streams must be listed exactly as given and read back their own bytes; table, pool, summary and signature entries are "
               "compared byte for byte before/after via the independent decoder; every call runs under the panic supervisor.",
    level_note="Distinct names whose stored forms are equal under the container's case-insensitive comparison are an ambiguous group and are excluded (counted).",
    assumptions=[TRUST_CFB, TRUST_CODEC],
    design_ref="3/C11",
    min_counters={"quick": {"writes_accepted": 1000, "verifications": 2000}, "thorough": {"writes_accepted": 10000}},
)

prop(
    "C12",
    title="Joins and projections produce the documented row combinations",
    technique="query-tree reference-model runtime monitor (nested-loop semantics, documented column naming) on all small table contents, under the panic supervisor",
    rule="every select tree of depth <= 1 (6 leaf forms incl. filtered / projected / identity-projected / self-join operands, a column name containing a period, x 10 join conditions incl. two naming an unknown column x inner/left x 6 "
         "top-level forms), depth-2 trees by stride, random depth-3 trees; on 64 (quick) / all 256 (thorough) content pairs of A(K,V), B(K,R.x) with keys in {1,2} and values in "
         "{absent, null, 1, 2}; distinct = (tree, contents); non-trivial = the model's answer has rows or is an error",
    level_text="Column names, rows, row order, Rows::len and Ok/Err of select_rows are compared with the model for every tree and content pair.",
    level_note="A projected sub-select is anonymous (no table. prefix), a filtered base table keeps its name: the model follows the library's reading of 'named table'.",
    assumptions=[TRUST_MODEL],
    design_ref="3/C12",
    min_counters={"quick": {"selects_checked": 50000, "content_pairs": 64}, "thorough": {"content_pairs": 256}},
)

prop(
    "C02",
    title="Independently encoded MSI databases are read exactly",
    technique="translation round trip through two independent implementations at run time: Obs(open(encode(db))) vs the independent decoder's view, then decode(save(apply(ops))) vs the reference model",
    rule="format-level generator: 0-6 tables x 1-32 columns of any type mix, unique keys, values valid for the schema, x option vectors (3-byte references, pool holes, "
         "duplicate entries, over-counted refcounts, pool / cell strings of 65,534 / 65,535 / 65,536 / 66,000 / 70,000 bytes, summary code-page property 0 or absent, code-page id 0 / any of the 26 pages, 1-byte integer size field, no _Validation, "
         "unsorted rows, 32 columns, stream names in every packing situation, property sets with shuffled value/table order, gaps, padding, all 7 value types, empty strings of size 0); one directed scenario family per option + random "
         "combinations; then 2-6 API changes on one table / streams / summary; distinct = (option set, table count, row-count class); non-trivial = the file opened and both legs ran",
    level_text="Leg 1 compares everything the public API reports (type, code page, tables, column definitions, rows in file order, summary, streams) with the expectation "
               "computed from the harness decoder alone; leg 2 decodes the file saved after API changes and requires untouched tables cell-for-cell identical and the touched "
               "table, streams and summary equal to the model.",
    level_note="'Well-formed' is what the encoder emits (live referenced entries, unique keys); encoder and decoder are cross-checked on every case (decode(encode(db)) == db).",
    assumptions=[TRUST_CFB, TRUST_CODEC, TRUST_ENC],
    design_ref="3/C02",
    min_counters={"quick": {"databases_opened": 1500, "option:long-refs": 100, "option:no-validation": 100, "option:unsorted-rows": 100, "saved_images_decoded": 1500},
                  "thorough": {"databases_opened": 50000}},
)

prop(
    "C16",
    title="Opening and reading a package never modifies it",
    technique="counting instrumented medium: write-call counter + byte comparison over read-only sessions closed in all three ways",
    rule="library-written packages (random histories, and 'featured' ones: orphan data streams of binary tables, foreign keys to missing tables, cleared / empty summary properties, "
         "differing code pages, unused pool tail, empty and dropped tables) and independently encoded databases (all encoder oddities) x random sequences of 1-40 read-only calls (table/column "
         "inspection, selects, failing selects and joins, summary getters, streams, has_stream, read_stream incl. missing names, has_digital_signature) x the three close modes; "
         "distinct = (origin, close mode, sequence of call kinds); non-trivial = the session opened and ran",
    level_text="The medium's call log is the oracle: writes == 0 and bytes identical to the input, for every session and close mode.",
    level_note="Sessions that panic are C09's subject and are skipped here (counted).",
    assumptions=["the instrumented medium faithfully counts every write the library issues"],
    design_ref="3/C16",
    min_counters={"quick": {"sessions_Flush": 500, "sessions_IntoInner": 500, "sessions_Drop": 500}, "thorough": {"sessions_Flush": 20000}},
)

prop(
    "C15",
    title="A successful flush means the data reached the medium, even when writes fail",
    level="fault_enumeration",
    technique="fault-injecting instrumented medium: every write/read/seek/flush call index of 11 operation scripts failed once (transient) and from then on (persistent); panic supervisor; reopen oracle whenever every call incl. the final flush/into_inner returned Ok",
    rule="18 scripts (create+insert, update+delete, drop table, 70 KB stream, summary change, code-page change, 70 KB string, reopen-then-modify, 600-row batch, two tables "
         "sharing strings, removal of a directory entry with two children (table / stream), four scripts with the fault plan armed BEFORE Package::open (then summary edit / insert / "
         "insert with a 2,600-entry pool / read everything), read-everything under armed faults, Package::create itself) first run fault-free to count their I/O calls, then re-run once per (call kind, index k, transient|persistent); quick: write "
         "indices at stride 1 (5 for >1500-write scripts, 37 for Package::create), reads/seeks at stride 3 (stride 1 for the open-under-faults and read-back scripts); thorough: every index; a read that returns Ok under a fault must return the file's content; after a reported failure the harness retries flush twice and drops (no panic allowed); distinct = (script, fault kind, persistence, "
         "fault site = innermost msi:: / cfb:: frames at injection); non-trivial = the armed fault actually fired",
    level_text="Complete enumeration of single fault points over the scripts' I/O traces. A run in which some call returned Err carries no state obligation (only 'no panic'); "
               "a run in which everything returned Ok must reopen to the fault-free result.",
    level_note="Fault sites are identified by stack frames, not by call index, so signatures survive code motion. Short writes are not injected.",
    assumptions=[TRUST_CFB, "one fault plan per run (single transient or single persistent fault)"],
    design_ref="3/C15",
    min_counters={"quick": {"faults_fired_write": 5000, "faults_fired_seek": 1000, "scripts": 11}, "thorough": {"faults_fired_write": 20000, "scripts": 11}},
)

prop(
    "C20",
    title="Capacity limits are enforced as errors, and symmetrically",
    technique="boundary runtime monitor: panic supervisor + 'Err changed nothing' snapshot + 'Ok reopens identically' close-point check at L-1, L, L+1 of every capacity limit, approached in three ways",
    rule="limits: 32 columns; 65,536 rows per table; 65,535 string-pool entries with two-byte references; 31 UTF-16 units of stored stream/table name; 32/64-character catalog "
         "widths for table and column names; each approached (a) in one batch, (b) incrementally over several calls with reopen in between, (c) again after deletions freed "
         "capacity, (d) create_table at a nearly full pool, sessions that only lower reference counts, reference-count overflow, an existing string after a freed entry, drop_table giving capacity back, null / empty-string "
         "updates at a full pool, the row limits of _Columns and _Validation, cells of 65,534..131,071 bytes; a refused step must also leave the saved file's string accounting intact; distinct = (limit, approach, step); non-trivial = the boundary step executed and all three oracles ran",
    level_text="Directed boundary scenarios on the real library: every step that must succeed is required to succeed and to reopen identically, every step beyond a limit must "
               "return Err, leave live and reopened state unchanged, and never panic or save a file the library then refuses.",
    level_note="The pool limit is located dynamically (entries counted by the independent decoder). Panics are catchable here, so no worker subprocess is needed.",
    assumptions=[TRUST_CFB, TRUST_CODEC],
    design_ref="3/C20",
    min_counters={"quick": {"limit_scenarios": 8, "boundary_steps_rows-65536": 15, "boundary_steps_pool-65535": 15}, "thorough": {"limit_scenarios": 8}},
)

prop(
    "C09",
    title="No input file can make the library panic",
    technique="panic/abort/hang supervisor (worker subprocesses, progress file, RLIMIT_AS) around an exercise script over structure-aware and byte-level corruptions; FFI lane through the C ABI under valgrind memcheck and AddressSanitizer; Miri smoke lane",
    rule="inputs = 24 seed packages (library histories + one encoded database per encoder option) x mutators: any catalog/user cell := null / dangling / huge reference / "
         "extreme number; table streams truncated / extended / removed / emptied; pool header and entries (unknown code page, flipped reference width, lengths beyond the "
         "data, zero refcount with text, long-string escapes, under/over-counts); property sets (BOM, version, OS, section/property offsets, counts, lengths, types, duplicate "
         "ids, code-page property type, string properties := adversarial texts); streams stored under names the library never writes (U+4840 inside, 31 units, control characters); root class id; byte substitutions, bit flips, truncation, splices, random bytes. Each input: open, describe, select + iterate every "
         "table, joins, summary getters, list/read streams, then update/insert/delete on every table, create/drop table, stream calls, summary setters, flush. distinct = "
         "(mutation class, mutation kind, opened?, number of API calls reached)",
    level_text="Every input is executed in an isolated worker process under a panic hook with backtrace attribution; process death and (re-confirmed) hangs are attributed to "
               "the exact case. The same corpus is pushed through get_information/get_table/free_* of msi_ffi from a C-ABI driver, plain (quick: 300 files), under valgrind "
               "memcheck with leak checking (quick: 3, thorough: 200) and under AddressSanitizer (thorough: 2,000); Miri interprets the exercise on 8 corrupted inputs (thorough).",
    level_note="'Every byte sequence' is sampled, never exhausted. A sanitizer that fails to start is inconclusive for that lane, not a violation.",
    assumptions=[TRUST_CFB, "panics inside dependencies count when reached through the public API"],
    design_ref="3/C09",
    lanes={"quick": ["checked", {"kind": "ffi-plain", "n": 300}, {"kind": "ffi-valgrind", "n": 3}],
           "thorough": ["checked", "release", {"kind": "ffi-plain", "n": 20000}, {"kind": "ffi-asan", "n": 2000}, {"kind": "ffi-valgrind", "n": 200}, {"kind": "miri", "which": "exercise"}]},
    min_counters={"quick": {"inputs_that_opened": 5000, "inputs_cell": 5000, "inputs_propset": 3000, "ffi_tables_fetched": 100},
                  "thorough": {"inputs_that_opened": 100000}},
)

ALL_IDS = ["C%02d" % i for i in range(1, 21)]


def write_manifest(path):
    checks = []
    na = []
    for pid in ALL_IDS:
        pd = PROPS.get(pid)
        if not pd or not pd.get("implemented"):
            na.append({"property_id": pid, "reason": "check not built yet (work in progress in this session; planned per DESIGN.md section 3)"})
            continue
        checks.append({
            "property_id": pid,
            "quick_cmd": "./check %s quick" % pid,
            "thorough_cmd": "./check %s thorough" % pid,
            "evidence_file": "/verif/evidence/%s.json" % pid,
            "replay_cmd_template": "./check %s --replay {path}" % pid,
            "engine": "mv",
            "level_claimed": {"category": pd["level"], "text": pd["level_text"], "design_ref": "DESIGN.md section " + pd["design_ref"]},
            "level_note": pd["level_note"],
            "technique": pd["technique"],
        })
    doc = {
        "version": 1,
        "setup_cmd": "./check --build",
        "hooks": {
            "guard": "--cfg msi_verif",
            "enable": "harness/.cargo/config.toml passes RUSTFLAGS --cfg msi_verif to every build of /repo made by the checks",
            "baseline_off_cmd": "cd /repo && cargo test --workspace --no-fail-fast --offline",
            "source_commits": [],
            "add_only": True,
        },
        "engines": [{
            "name": "mv",
            "path": "/verif/harness",
            "serves_properties": [c["property_id"] for c in checks],
            "kind_free_text": "Rust monitor binary (reference model, independent codec, instrumented medium, panic supervisor) driven by the python ./check driver; sanitizer lanes in lanes.py",
        }],
        "checks": checks,
        "notes": "Runtime monitoring: every check executes the real library from /repo's working tree (path dependency, rebuilt on every run) under directed + bounded-exhaustive + seeded random workloads; see DESIGN.md.",
        "not_applicable": na,
    }
    json.dump(doc, open(path, "w"), indent=1)
    open(path, "a").write("\n")
