"""Per-property definitions shared by ./check and MANIFEST.json generation."""
import json

TRUST_CFB = "the cfb crate (container format) is a trusted base shared with the library"
TRUST_ENC = "encoding_rs tables (resolved via Encoding::for_label) are the code-page oracle, shared dependency of the library"
TRUST_MODEL = "the harness's reference model / reference validity predicate, written from the documentation, is correct"
TRUST_CODEC = "the harness's independent MSI/property-set codec, written from the format description, is correct"

BOTH = {"quick": ["checked"], "thorough": ["checked", "release"]}

PROPS = {}


def prop(pid, **kw):
    kw.setdefault("lanes", BOTH)
    kw.setdefault("level", "exploration")
    kw.setdefault("implemented", True)
    kw.setdefault("min_counters", {})
    PROPS[pid] = kw


prop(
    "C14",
    title="Code pages encode losslessly what they can represent and match their names",
    technique="differential runtime monitor vs encoding_rs oracle, exhaustive over all scalars x 26 pages, in an overflow/assertion-instrumented build",
    rule="every (page, scalar) pair, every 1- and 2-byte input per page, strings sliding multi-byte/unmappable markers over "
         "the 1024-byte chunk boundary, identifier ranges; a case is distinct by (page, outcome class = replaced / byte length, "
         "Unicode block) resp. (page, lead byte, decoded length) resp. identifier; non-trivial = the library was actually called on it",
    level_text="Exhaustive execution of the real encode/decode/from_id/id code on the complete finite domain (1,112,064 scalars x 26 "
               "pages; all 1-2 byte inputs; 2^21 ids quick / 2^32 thorough) under a differential oracle and the algebraic laws; strings "
               "across the chunk boundary are sampled. For a pure function over a finite domain, observing every input is as strong as "
               "runtime monitoring gets.",
    level_note="Oracle = encoding_rs looked up by WHATWG label (independent of codepage.rs's own table; same crate as the library uses). "
               "28591 is judged against windows-1252 as for_label('iso-8859-1') denotes; 0x80-0x9F of true ISO-8859-1 not decided.",
    assumptions=[TRUST_ENC, "28591 judged as windows-1252 (WHATWG iso-8859-1 label)"],
    design_ref="3/C14",
    min_counters={"quick": {"scalars_roundtrip": 1000000, "decode_inputs": 1000000}, "thorough": {"scalars_roundtrip": 1000000}},
)

prop(
    "C13",
    title="Expression evaluation is total and follows the documented operators",
    technique="reference-evaluator runtime monitor (admissible result sets) + panic supervisor over bounded-exhaustive and random expression trees, built twice (literal-folded and lazy) and used as select/update/delete conditions; overflow-checked build",
    rule="trees over the 18 operators + AND/OR and the 12-leaf battery: all depth-1 trees, depth-2 trees with one composite child "
         "(1/40 slice quick, all thorough), random trees to depth 6; each evaluated with literal leaves (constant folding) and with "
         "column leaves (lazy) and a sample as WHERE of select/update/delete; distinct = distinct tree shape (operators + leaf value classes); "
         "non-trivial = both constructions were executed and compared with the reference set",
    level_text="Runs the real Expr constructors/eval and the query executor on every small tree and a large random sample in the "
               "overflow-checking build (where the arithmetic defects are panics) and in release; results are judged against a reference "
               "evaluator that returns the set of results the documentation admits.",
    level_note="Reference evaluator written from the operator docs; cross-type ordering comparisons only required to give 0/1; i32::MIN and '' "
               "cannot be stored in cells, so their lazy forms are ~cMax and a literal.",
    assumptions=[TRUST_MODEL],
    design_ref="3/C13",
    min_counters={"quick": {"depth1_trees": 2484, "used_as_update_condition": 1000}, "thorough": {"depth1_trees": 2484}},
)

prop(
    "C17",
    title="Language codes and tags map consistently",
    technique="law-checking runtime monitor, exhaustive over all 65,536 codes and bounded-exhaustive over tag strings",
    rule="all 65,536 codes; every tag in the image of tag(); 36 pinned LCID pairs; all ll / lll / ll-RR (and lll-RR in thorough) letter tags in "
         "lower/upper case, mutated table tags and random strings; distinct = (law class, language part, resulting code)",
    level_text="Exhaustive on the code side (finite domain fully enumerated), bounded-exhaustive on the tag side; every call goes through the public "
               "from_code/code/from_tag/tag under a panic supervisor.",
    level_note="The tag table is recovered as the image of tag(); pinned pairs come from the Windows LCID reference and only name entries the table claims.",
    assumptions=["pinned identifier/tag pairs are transcribed correctly from the Windows LCID reference"],
    design_ref="3/C17",
    min_counters={"quick": {"codes_checked": 65536}, "thorough": {"codes_checked": 65536}},
)

prop(
    "C18",
    title="Creation times convert to and from Windows timestamps without drift",
    technique="law-checking runtime monitor (drift < 100 ns, idempotence, monotonicity, saturation) through Package::summary_info_mut(), with a save+reopen sample",
    rule="every tick within +-300 ticks of 1601-01-01, 1970-01-01 and tick 2^64-1 with sub-tick ns 0..199; platform SystemTime extremes; "
         "uniform / log-uniform / clustered / modern random times sorted in blocks of 256; distinct = (class, magnitude bucket, sub-tick residue, tick mod 8)",
    level_text="Millions of set/get executions on a live package with exact integer (i128 ns) oracles for the four laws; 1 in 4096 values also goes "
               "through flush + reopen.",
    level_note="SystemTime arithmetic of the platform is trusted.",
    assumptions=["std::time::SystemTime arithmetic is exact on this platform"],
    design_ref="3/C18",
    min_counters={"quick": {"reopen_samples": 50}, "thorough": {"reopen_samples": 50}},
)

prop(
    "C19",
    title="Printed queries mean what the query objects mean",
    technique="print -> independent precedence parser -> re-evaluation on a row battery (runtime differential monitor on to_string()); every parent/child operator pair enumerated",
    rule="every (parent operator, child operator, side) triple over all 20 operators with column/literal leaves; depth-3 chains (one operator per "
         "precedence level quick, all thorough); random trees to depth 6; random SELECT/INSERT/UPDATE/DELETE with nested joins; distinct = "
         "three-level operator shape resp. statement shape; non-trivial = text was produced, parsed and compared",
    level_text="Each printed text is re-read with the ladder the property states and compared with the object by evaluating both on all "
               "value combinations (10 values per column, up to 3 columns exhaustively); violations are minimised to the culprit operator pair.",
    level_note="Literal-only subtrees are folded by the library at construction (judged by C13); the object's meaning is taken with those literals as printed by the library.",
    assumptions=["the harness parser implements the stated ladder (OR < AND < NOT < comparison < | < ^ < & < shifts < +- < */ < unary), left-associative", TRUST_MODEL],
    design_ref="3/C19",
    min_counters={"quick": {"operator_pair_trees": 3000, "statements_select": 500}, "thorough": {"operator_pair_trees": 3000}},
)

ALL_IDS = ["C%02d" % i for i in range(1, 21)]


def write_manifest(path):
    checks = []
    na = []
    for pid in ALL_IDS:
        pd = PROPS.get(pid)
        if not pd or not pd.get("implemented"):
            na.append({"property_id": pid, "reason": "check not built yet (work in progress in this session; planned per DESIGN.md section 3)"})
            continue
        checks.append({
            "property_id": pid,
            "quick_cmd": "./check %s quick" % pid,
            "thorough_cmd": "./check %s thorough" % pid,
            "evidence_file": "/verif/evidence/%s.json" % pid,
            "replay_cmd_template": "./check %s --replay {path}" % pid,
            "engine": "mv",
            "level_claimed": {"category": pd["level"], "text": pd["level_text"], "design_ref": "DESIGN.md section " + pd["design_ref"]},
            "level_note": pd["level_note"],
            "technique": pd["technique"],
        })
    doc = {
        "version": 1,
        "setup_cmd": "./check --build",
        "hooks": {
            "guard": "--cfg msi_verif",
            "enable": "harness/.cargo/config.toml passes RUSTFLAGS --cfg msi_verif to every build of /repo made by the checks",
            "baseline_off_cmd": "cd /repo && cargo test --workspace --no-fail-fast --offline",
            "source_commits": [],
            "add_only": True,
        },
        "engines": [{
            "name": "mv",
            "path": "/verif/harness",
            "serves_properties": [c["property_id"] for c in checks],
            "kind_free_text": "Rust monitor binary (reference model, independent codec, instrumented medium, panic supervisor) driven by the python ./check driver; sanitizer lanes in lanes.py",
        }],
        "checks": checks,
        "notes": "Runtime monitoring: every check executes the real library from /repo's working tree (path dependency, rebuilt on every run) under directed + bounded-exhaustive + seeded random workloads; see DESIGN.md.",
        "not_applicable": na,
    }
    json.dump(doc, open(path, "w"), indent=1)
    open(path, "a").write("\n")
