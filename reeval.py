#!/usr/bin/env python3
"""Re-checks every seeded change against the CURRENT harness and the CURRENT /repo HEAD:
for each seeded/<id>/patch.diff: apply it to a scratch worktree of /repo, run `./check <property> quick --repo <wt>`,
undo it.  Results go to seeded/<id>/meta.json ("recheck") and to stdout.  usage: reeval.py [-j N] [ids...]"""
import json, os, re, subprocess, sys, threading, time, glob, queue

HERE = os.path.dirname(os.path.abspath(__file__))
args = sys.argv[1:]
jobs = 4
if args[:1] == ["-j"]:
    jobs = int(args[1]); args = args[2:]
ids = args or sorted(os.path.basename(os.path.dirname(p)) for p in glob.glob(os.path.join(HERE, "seeded", "*", "meta.json")))
head = subprocess.check_output(["git", "-C", "/repo", "rev-parse", "--short", "HEAD"]).decode().strip()
hcommit = subprocess.check_output(["git", "-C", HERE, "rev-parse", "--short", "HEAD"]).decode().strip()
base = "/tmp/reeval"
os.makedirs(base, exist_ok=True)
q = queue.Queue()
for i in ids:
    q.put(i)
lock = threading.Lock()
results = {}

def sh(cmd, cwd=None, timeout=None):
    p = subprocess.run(cmd, shell=True, cwd=cwd, stdout=subprocess.PIPE, stderr=subprocess.STDOUT, timeout=timeout)
    return p.returncode, p.stdout.decode("utf-8", "replace")

def worker(k):
    wt = os.path.join(base, "w%d" % k)
    if not os.path.isdir(wt):
        sh("git -C /repo worktree add --detach %s HEAD" % wt)
    sh("git checkout -q -- . && git checkout -q --detach %s" % head, cwd=wt)
    while True:
        try:
            sid = q.get_nowait()
        except queue.Empty:
            return
        d = os.path.join(HERE, "seeded", sid)
        meta = json.load(open(os.path.join(d, "meta.json")))
        pid = meta["property"]
        sh("git checkout -q -- .", cwd=wt)
        rc, out = sh("git apply %s" % os.path.join(d, "patch.diff"), cwd=wt)
        if rc != 0:
            res = {"repo_head": head, "harness": hcommit, "exit": None, "error": "patch does not apply: " + out[-300:]}
        else:
            t0 = time.time()
            try:
                rc, out = sh("./check %s quick --repo %s" % (pid, wt), cwd=HERE, timeout=3 * 3600)
            except subprocess.TimeoutExpired:
                rc, out = 99, "timeout"
            sigs = sorted(set(re.findall(r"^  signature: (.*)$", out, re.M)))
            res = {"repo_head": head, "harness": hcommit, "exit": rc, "violation_signatures": sigs[:6], "n_signatures": len(sigs), "wall_s": round(time.time() - t0, 1),
                   "summary": [l for l in out.splitlines() if l.startswith("[check ")][-1:]}
        sh("git checkout -q -- .", cwd=wt)
        with lock:
            meta["recheck"] = res
            json.dump(meta, open(os.path.join(d, "meta.json"), "w"), indent=1, ensure_ascii=False)
            results[sid] = res
            print("%s %s exit=%s %s" % (sid, pid, res.get("exit"), (res.get("violation_signatures") or [res.get("error", "")])[:1]), flush=True)

ts = [threading.Thread(target=worker, args=(k,)) for k in range(jobs)]
for t in ts:
    t.start()
for t in ts:
    t.join()
missed = [s for s, r in sorted(results.items()) if r.get("exit") != 1]
print("re-checked %d, detected %d, not detected: %s" % (len(results), len(results) - len(missed), missed))
