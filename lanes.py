"""Sanitizer / interpreter lanes driven by ./check (C09 FFI lanes, Miri smoke lane).

Each lane returns (doc, err): doc has the same shape as the JSON written by the
`mv` binary (evaluations, distinct_nontrivial, counters, samples, violations,
inconclusive); err is a string when the lane could not start at all
(toolchain problem => inconclusive for that lane, never a violation).
"""
import hashlib
import json
import os
import re
import shutil
import subprocess
import time

HERE = os.path.dirname(os.path.abspath(__file__))


def _doc():
    return {"evaluations": 0, "distinct_nontrivial": 0, "counters": {}, "samples": [], "violations": [],
            "inconclusive": [], "exhaustive_parts": [], "notes": [], "profile": "lane"}


def _corpus(cfg, n):
    """Corrupted inputs + seeds as files, written by `mv C09-corpus` (checked profile)."""
    tgt = cfg["tgt"]
    if not cfg["build"](cfg["hdir"], "checked"):
        return None, "harness build failed"
    d = os.path.join(tgt, "corpus", "s%d_n%d" % (cfg["seed"], n))
    if os.path.isdir(d):
        shutil.rmtree(d)
    os.makedirs(d)
    p = subprocess.run([os.path.join(tgt, "checked", "mv"), "C09-corpus", d, str(cfg["seed"]), str(n)],
                       stdout=subprocess.PIPE, stderr=subprocess.STDOUT, text=True, env=cfg["env"])
    if p.returncode != 0:
        return None, "corpus generation failed: %s" % p.stdout[-300:]
    files = sorted(os.path.join(d, f) for f in os.listdir(d))
    return files, None


def _keep_witness(path, pid="C09"):
    rdir = os.path.join(HERE, "replays", pid, "inputs")
    os.makedirs(rdir, exist_ok=True)
    h = hashlib.sha1(open(path, "rb").read()).hexdigest()[:12]
    dst = os.path.join(rdir, h + ".msi")
    shutil.copyfile(path, dst)
    return dst


def _first_repo_frame(text):
    for line in text.splitlines():
        m = re.search(r"(msi(?:_ffi)?::[A-Za-z0-9_:<>]+)", line)
        if m:
            return m.group(1)
    for line in text.splitlines():
        m = re.search(r"(/repo/[^ :)]+:\d+)", line)
        if m:
            return m.group(1)
    return "unknown-frame"


def _run_ffi(exe_prefix, exe, files, doc, lane, env, chunk=100, per_file_timeout=120):
    """Runs the driver over the files in chunks; attributes a death to the file in progress."""
    i = 0
    tables = rows = calls = 0
    while i < len(files):
        batch = files[i:i + chunk]
        try:
            p = subprocess.run(exe_prefix + [exe] + batch, stdout=subprocess.PIPE, stderr=subprocess.PIPE, text=True,
                               env=env, timeout=per_file_timeout * len(batch), errors="replace")
        except subprocess.TimeoutExpired:
            doc["inconclusive"].append("%s: driver exceeded its watchdog on a batch starting at %s" % (lane, batch[0]))
            i += len(batch)
            continue
        done = [l for l in p.stdout.splitlines() if l.startswith("DONE ")]
        seen = [l[5:] for l in p.stdout.splitlines() if l.startswith("FILE ")]
        if p.returncode == 0 and done:
            parts = done[-1].split()
            calls += int(parts[2]); tables += int(parts[3]); rows += int(parts[4])
            doc["evaluations"] += len(batch)
            i += len(batch)
            continue
        # died or reported an error: the culprit is the last file announced
        culprit = seen[-1] if seen else batch[0]
        doc["evaluations"] += len(seen)
        report = (p.stderr or "")[-6000:]
        frame = _first_repo_frame(report)
        kept = _keep_witness(culprit)
        if "ERROR: AddressSanitizer" in report or "ERROR: LeakSanitizer" in report:
            kind = re.search(r"ERROR: (?:Address|Leak)Sanitizer:? ([a-z\-]+)", report)
            sig = "C09/%s/asan-%s/%s" % (lane, kind.group(1) if kind else "report", frame)
        elif "== ERROR SUMMARY" in report or re.search(r"==\d+== (Invalid|Conditional|Use of|\d+ bytes in)", report):
            kind = re.search(r"==\d+== (Invalid \w+|Conditional jump|Use of uninitialised|[\d,]+ bytes in [\d,]+ blocks are \w+ lost)", report)
            sig = "C09/%s/memcheck-%s/%s" % (lane, (kind.group(1) if kind else "error").replace(" ", "-")[:40], frame)
        else:
            sig = "C09/%s/process-died-%s/%s" % (lane, p.returncode, frame)
        doc["violations"].append({
            "signature": sig,
            "what": "FFI driver (%s) failed on %s with status %s: %s" % (lane, os.path.basename(culprit), p.returncode, report[-700:]),
            "witness": {"kind": "ffi-file", "lane": lane, "path": kept},
            "count": 1,
        })
        # continue after the culprit
        try:
            i = files.index(culprit) + 1
        except ValueError:
            i += len(batch)
    doc["counters"].update({"ffi_calls": calls, "ffi_tables_fetched": tables, "ffi_rows_returned": rows, "ffi_files": doc["evaluations"]})
    doc["distinct_nontrivial"] = min(doc["evaluations"], tables)  # files whose tables were actually fetched and freed
    return doc


def lane_ffi_plain(cfg):
    doc = _doc()
    files, err = _corpus(cfg, cfg["lane"].get("n", 300))
    if err:
        return None, err
    exe = os.path.join(cfg["tgt"], "checked", "ffidrv")
    _run_ffi([], exe, files, doc, "ffi-plain", cfg["env"], chunk=100)
    doc["samples"].append({"lane": "ffi-plain", "calls": "get_information/free_information + get_table/free_table per table through the C ABI", "example_input": os.path.basename(files[-1])})
    return doc, None


def lane_ffi_valgrind(cfg):
    doc = _doc()
    if shutil.which("valgrind") is None:
        return None, "valgrind not installed"
    files, err = _corpus(cfg, cfg["lane"].get("n", 3))
    if err:
        return None, err
    # seeds first (they open and return tables), then corrupted cases
    seeds = [f for f in files if os.path.basename(f).startswith("seed")]
    cases = [f for f in files if os.path.basename(f).startswith("case")]
    n = cfg["lane"].get("n", 3)
    pick = (seeds[:max(1, n // 3)] + cases)[:n]
    exe = os.path.join(cfg["tgt"], "checked", "ffidrv")
    prefix = ["valgrind", "--error-exitcode=99", "--leak-check=full", "--errors-for-leak-kinds=definite,indirect",
              "--show-leak-kinds=definite,indirect", "-q"]
    # shard over the cores: one process per small batch
    import concurrent.futures
    batches = [pick[i::16] for i in range(16) if pick[i::16]]
    docs = []
    with concurrent.futures.ThreadPoolExecutor(max_workers=16) as ex:
        futs = [ex.submit(_run_ffi, prefix, exe, b, _doc(), "ffi-valgrind", cfg["env"], 10, 600) for b in batches]
        for f in futs:
            docs.append(f.result())
    for d in docs:
        doc["evaluations"] += d["evaluations"]
        doc["violations"] += d["violations"]
        doc["inconclusive"] += d["inconclusive"]
        for k, v in d["counters"].items():
            doc["counters"][k] = doc["counters"].get(k, 0) + v
    doc["distinct_nontrivial"] = doc["evaluations"]
    doc["samples"].append({"lane": "ffi-valgrind", "tool": "valgrind memcheck --leak-check=full, error exit code 99", "inputs": [os.path.basename(p) for p in pick[:4]]})
    return doc, None


def lane_ffi_asan(cfg):
    doc = _doc()
    env = dict(cfg["env"])
    env["RUSTFLAGS"] = "-Zsanitizer=address -Cforce-frame-pointers=yes --cfg msi_verif"
    env["CARGO_TARGET_DIR"] = os.path.join(cfg["tgt"], "asan")
    t0 = time.time()
    p = subprocess.run(["cargo", "+nightly", "build", "--offline", "--release", "--target", "x86_64-unknown-linux-gnu", "--bin", "ffidrv"],
                       cwd=cfg["hdir"], env=env, stdout=subprocess.PIPE, stderr=subprocess.STDOUT, text=True)
    if p.returncode != 0:
        return None, "ASan build failed: %s" % p.stdout[-400:]
    cfg["log"]("[check] built ASan ffidrv in %.1fs" % (time.time() - t0))
    files, err = _corpus(cfg, cfg["lane"].get("n", 2000))
    if err:
        return None, err
    exe = os.path.join(cfg["tgt"], "asan", "x86_64-unknown-linux-gnu", "release", "ffidrv")
    renv = dict(cfg["env"])
    renv["ASAN_OPTIONS"] = "halt_on_error=1:abort_on_error=0:detect_leaks=1:exitcode=98"
    import concurrent.futures
    batches = [files[i::16] for i in range(16) if files[i::16]]
    with concurrent.futures.ThreadPoolExecutor(max_workers=16) as ex:
        futs = [ex.submit(_run_ffi, [], exe, b, _doc(), "ffi-asan", renv, 50, 120) for b in batches]
        for f in futs:
            d = f.result()
            doc["evaluations"] += d["evaluations"]
            doc["violations"] += d["violations"]
            doc["inconclusive"] += d["inconclusive"]
            for k, v in d["counters"].items():
                doc["counters"][k] = doc["counters"].get(k, 0) + v
    doc["distinct_nontrivial"] = doc["evaluations"]
    doc["samples"].append({"lane": "ffi-asan", "build": "cargo +nightly -Zsanitizer=address --target x86_64-unknown-linux-gnu", "options": renv["ASAN_OPTIONS"]})
    return doc, None


def lane_miri(cfg):
    """16 processes: scenarios 0..7 (C01 round trip) or exercises of corrupted inputs (C09)."""
    doc = _doc()
    which = cfg["lane"].get("which", "scenarios")
    mdir = os.path.join(HERE, "miri-smoke")
    repo = cfg["repo"]
    env = dict(cfg["env"])
    env["MIRIFLAGS"] = "-Zmiri-disable-isolation"
    env["CARGO_TARGET_DIR"] = os.path.join(cfg["tgt"], "miri")
    if os.path.abspath(repo) != "/repo":
        # scratch copy of the smoke crate pointing at the mutated repository
        m2 = os.path.join(repo, ".verif_miri")
        shutil.rmtree(m2, ignore_errors=True)
        shutil.copytree(mdir, m2)
        t = open(os.path.join(m2, "Cargo.toml")).read().replace('"/repo"', '"%s"' % os.path.abspath(repo))
        open(os.path.join(m2, "Cargo.toml"), "w").write(t)
        mdir = m2
    base = ["cargo", "+nightly", "miri", "run", "--offline", "--target", "i586-unknown-linux-gnu", "--"]
    # build once (first run), then fan out
    jobs = []
    if which == "scenarios":
        jobs = [[str(k)] for k in range(8)]
    else:
        files, err = _corpus(cfg, 24)
        if err:
            return None, err
        cases = [f for f in files if os.path.basename(f).startswith("case")][:6] + [f for f in files if os.path.basename(f).startswith("seed")][:2]
        jobs = [[str(8 + i), f] for i, f in enumerate(cases)]
    first = subprocess.run(base + jobs[0], cwd=mdir, env=env, stdout=subprocess.PIPE, stderr=subprocess.PIPE, text=True, errors="replace")
    results = [(jobs[0], first)]
    if first.returncode != 0 and ("error: could not compile" in first.stderr or "miri" in first.stderr and "not installed" in first.stderr):
        return None, "Miri did not start: %s" % first.stderr[-400:]
    procs = [(j, subprocess.Popen(base + j, cwd=mdir, env=env, stdout=subprocess.PIPE, stderr=subprocess.PIPE, text=True, errors="replace")) for j in jobs[1:]]
    for j, pr in procs:
        try:
            out, errt = pr.communicate(timeout=3600)
        except subprocess.TimeoutExpired:
            pr.kill()
            doc["inconclusive"].append("miri job %s exceeded its watchdog" % j)
            continue
        results.append((j, subprocess.CompletedProcess(pr.args, pr.returncode, out, errt)))
    pid = "C01" if which == "scenarios" else "C09"
    for j, r in results:
        doc["evaluations"] += 1
        if r.returncode == 0:
            doc["distinct_nontrivial"] += 1
            continue
        text = (r.stderr or "") + (r.stdout or "")
        if "Undefined Behavior" in text:
            m = re.search(r"Undefined Behavior: ([^\n]+)", text)
            sig = "%s/miri/undefined-behaviour/%s" % (pid, _first_repo_frame(text))
            what = "Miri: Undefined Behavior: %s" % (m.group(1) if m else "")
        elif "MISMATCH" in text:
            sig = "%s/miri/roundtrip-mismatch" % pid
            what = "round trip mismatch under Miri: %s" % text[-600:]
        elif "panicked at" in text:
            m = re.search(r"panicked at ([^\n]+)", text)
            sig = "%s/miri/panic/%s" % (pid, re.sub(r"\d+", "#", m.group(1))[:80] if m else "?")
            what = "panic under Miri: %s" % text[-600:]
        elif "unsupported operation" in text:
            doc["inconclusive"].append("miri job %s hit an unsupported operation: %s" % (j, text[-300:]))
            continue
        else:
            doc["inconclusive"].append("miri job %s failed for an unrecognised reason: %s" % (j, text[-300:]))
            continue
        w = {"kind": "miri", "job": j}
        if len(j) > 1:
            w["path"] = _keep_witness(j[1], pid)
        doc["violations"].append({"signature": sig, "what": what, "witness": w, "count": 1})
    doc["counters"]["miri_jobs"] = doc["evaluations"]
    doc["samples"].append({"lane": "miri", "target": "i586-unknown-linux-gnu", "jobs": jobs[:3]})
    if mdir.endswith(".verif_miri"):
        shutil.rmtree(mdir, ignore_errors=True)
    return doc, None


def run(kind, cfg):
    try:
        if kind == "ffi-plain":
            return lane_ffi_plain(cfg)
        if kind == "ffi-valgrind":
            return lane_ffi_valgrind(cfg)
        if kind == "ffi-asan":
            return lane_ffi_asan(cfg)
        if kind == "miri":
            return lane_miri(cfg)
    except Exception as e:  # noqa: BLE001
        return None, "lane crashed in the driver: %r" % (e,)
    return None, "unknown lane %s" % kind


def replay_ffi(witness, cfg):
    """Re-runs the plain FFI driver on a kept witness file."""
    doc = _doc()
    path = witness.get("path")
    if not path or not os.path.exists(path):
        return None, "witness file missing"
    if not cfg["build"](cfg["hdir"], "checked"):
        return None, "harness build failed"
    exe = os.path.join(cfg["tgt"], "checked", "ffidrv")
    _run_ffi([], exe, [path], doc, witness.get("lane", "ffi-plain"), cfg["env"], chunk=1)
    return doc, None
