#!/usr/bin/env python3
"""Regenerates the table of seeded changes in DESIGN.md (between the SEEDED-TABLE markers) from seeded/*/meta.json."""
import glob
import json
import os

HERE = os.path.dirname(os.path.abspath(__file__))
rows = ["| id | what the change does | what it needs to manifest | caught by (quick tier) — first signature | re-check at the final harness / HEAD | note |", "|---|---|---|---|---|---|"]
n = caught = 0
for mp in sorted(glob.glob(os.path.join(HERE, "seeded", "*", "meta.json"))):
    m = json.load(open(mp))
    name = os.path.basename(os.path.dirname(mp))
    pid = m["property"]
    c = m["checks"][pid]
    sig = c["violation_signatures"][0] if c["violation_signatures"] else "-"
    sig = sig.replace("|", " / ").replace("\n", " ")[:80]
    n += 1
    if c["exit"] == 1:
        caught += 1
    verdict = "%s %s: `%s`" % (pid, c.get("tier", "quick"), sig) if c["exit"] == 1 else "**missed** (exit %s)" % c["exit"]
    rc = m.get("recheck")
    if m.get("obsolete_at_head"):
        re_txt = "unreachable at HEAD (see ported)"
    elif not rc:
        re_txt = "-"
    elif rc.get("exit") == 1:
        re_txt = "detected @%s: `%s`" % (rc.get("repo_head", "?"), (rc.get("violation_signatures") or ["?"])[0].replace("|", " / ").replace("\n", " ")[:60])
    else:
        re_txt = "**not detected** @%s (exit %s)" % (rc.get("repo_head", "?"), rc.get("exit"))
    rows.append("| %s | %s | %s | %s | %s | %s |" % (name, m.get("what_it_changes", "").replace("|", "/"), m.get("needs_to_manifest", "").replace("|", "/"), verdict, re_txt, m.get("note", "")))
text = "\n".join(rows) + "\n\n%d seeded changes, %d caught by the property's own check.\n" % (n, caught)
p = os.path.join(HERE, "DESIGN.md")
s = open(p).read()
a = s.index("<!-- SEEDED-TABLE-BEGIN -->") + len("<!-- SEEDED-TABLE-BEGIN -->\n")
b = s.index("<!-- SEEDED-TABLE-END -->")
open(p, "w").write(s[:a] + text + s[b:])
print(n, caught)
