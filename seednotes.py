#!/usr/bin/env python3
"""Fills what_it_changes / needs_to_manifest of round-2 seeded changes from the author's notes
(seeded/<id>/author_notes.md, section of the mutant).  usage: seednotes.py C03 [--round3]"""
import json, os, re, sys
HERE = os.path.dirname(os.path.abspath(__file__))
pid = sys.argv[1]
rnd = 6 if "--round6" in sys.argv else 5 if "--round5" in sys.argv else 4 if "--round4" in sys.argv else 3 if "--round3" in sys.argv else 2
src = "/tmp/mut/%s/notes.md" % pid
text = open(src).read()
secs = re.split(r"(?m)^#{2,3} +(?:Mutant|mutant)\s+([ABCMN])\b", text)
# secs = [pre, 'A', bodyA, 'B', bodyB, ...]
def clean(s, n):
    s = re.sub(r"\s+", " ", s).strip().strip("*").strip()
    s = s.replace("`", "")
    return s if len(s) <= n else s[: n - 1].rsplit(" ", 1)[0] + "…"
for i in range(1, len(secs) - 1, 2):
    letter, body = secs[i], secs[i + 1]
    head, _, rest = body.partition("\n")
    head = re.sub(r"^[\s\-—–:]+", "", head)
    bullets = re.split(r"(?m)^\s*[\*\-] +", rest)
    need = ""
    for b in bullets:
        if re.match(r"(\*\*)?(Need|What is needed|Trigger|Manifest|To manifest|Requires)", b):
            need = re.sub(r"^(\*\*)?[^:]*:(\*\*)?", "", b, count=1)
            break
    # stop at the next section heading
    need = need.split("\n## ")[0]
    new = {2: {"A": "D", "B": "E", "C": "F"}, 3: {"A": "G", "B": "H", "C": "I"}, 4: {"A": "J", "B": "K", "C": "L"}, 5: {"A": "M", "B": "N", "C": "O"}, 6: {"M": "M", "N": "N"}}[rnd][letter]
    mp = os.path.join(HERE, "seeded", pid + new, "meta.json")
    if not os.path.exists(mp):
        continue
    m = json.load(open(mp))
    m.setdefault("what_it_changes", clean(head, 200))
    if need:
        m.setdefault("needs_to_manifest", clean(need, 320))
    m.setdefault("note", "")
    json.dump(m, open(mp, "w"), indent=1, ensure_ascii=False)
    print(pid + new, "|", m["what_it_changes"], "|", m.get("needs_to_manifest", "")[:100])
